"""C19 - malformed ISA definitions and unmet version requirements are rejected (validation kernels)."""
from pyvc.registry import contract, spec, declare_const
from . import common  # noqa

M = 'bespokeasm.assembler.model:AssemblerModel'
declare_const('BESPOKEASM_VERSION_STR', 'str')        # the running assembler's version (data)
declare_const('BESPOKEASM_MIN_REQUIRED_STR', 'str')   # the oldest configuration format still supported (data)

contract(M + '.predefined_memory_zones', props=['C19'], assumed=True, returns='cfg', modifies=[],
         reason='returns the configured zone list (or an empty list); plain configuration access')
contract(M + '.default_origin', props=['C19'], assumed=True, returns='int', modifies=[],
         reason='returns general.origin (default 0); plain configuration access')


@spec
def general(m):
    return m._config['general']


contract(M + '._validate_config', props=['C19'],
         may_raise={'SystemExit': 'True', 'KeyError': 'True', 'TypeError': 'True'},
         ensures=[  # a definition that is accepted has its required sections ...
             "'general' in self._config", "'instructions' in self._config",
             # ... and its min_version gate holds BY SEMANTIC-VERSION ORDER: it does not demand a newer assembler than the
             # running one, nor an older format than the minimum supported
             "implies('min_version' in self._config['general'],"
             " not semver_lt(BESPOKEASM_VERSION_STR, self._config['general']['min_version'])"
             " and not semver_lt(self._config['general']['min_version'], BESPOKEASM_MIN_REQUIRED_STR))"],
         modifies=[],
         loops={'0': dict(idx='i', inv=["'general' in self._config"])})

# ---- operand configuration --------------------------------------------------------------------------------
NB = 'bespokeasm.assembler.model.operand.types.numeric_bytecode:NumericBytecode'
contract('bespokeasm.assembler.model.operand:Operand.__init__', props=['C19'],
         params={'operand_id': 'str', 'arg_config_dict': 'cfg', 'default_endian': 'str'},
         ensures=['self._id == operand_id', 'self._config is arg_config_dict', 'self._default_endian == default_endian'],
         modifies=['self._id', 'self._config', 'self._default_endian'])
contract(NB + '.__init__', props=['C19', 'C12'],
         params={'operand_id': 'str', 'arg_config_dict': 'cfg', 'default_endian': 'str'},
         may_raise={'SystemExit': 'True', 'KeyError': 'True'},
         ensures=[  # an inverted numeric range is never accepted
             "cfg_int(self._config['bytecode']['max']) >= cfg_int(self._config['bytecode']['min'])"],
         modifies=['self._id', 'self._config', 'self._default_endian'])

OP = 'bespokeasm.assembler.model.operand_parser:OperandParser'
contract(OP + '.validate', props=['C19', 'C13'],
         may_raise={'SystemExit': 'True', 'KeyError': 'True'},
         ensures=[  # operand counts match their operand lists: the operand sets ...
             "implies(self._operand_sets_model is not None,"
             " cfg_int(self._config['count']) == len(self._operand_sets_model._operand_sets))",
             # ... and every explicitly listed operand combination
             "implies(self._specific_operands_model is not None,"
             " forall(lambda j: implies(0 <= j and j < len(self._specific_operands_model._specific_operands),"
             " len(elems(self._specific_operands_model._specific_operands)[j]._operands) == cfg_int(self._config['count']))))"],
         modifies=[],
         loops={'0': dict(idx='i', inv=[
             "forall(lambda j: implies(0 <= j and j < i,"
             " len(elems(self._specific_operands_model._specific_operands)[j]._operands) == cfg_int(self._config['count'])))"])})
