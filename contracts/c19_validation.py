"""C19 - malformed ISA definitions and unmet version requirements are rejected (validation kernels)."""
from pyvc.registry import contract, spec, declare_const, declare_fields
from . import common  # noqa

M = 'bespokeasm.assembler.model:AssemblerModel'
declare_const('BESPOKEASM_VERSION_STR', 'str')        # the running assembler's version (data)
declare_const('BESPOKEASM_MIN_REQUIRED_STR', 'str')   # the oldest configuration format still supported (data)

contract(M + '.predefined_memory_zones', props=['C19'], assumed=True, returns='cfg', modifies=[],
         reason='returns the configured zone list (or an empty list); plain configuration access')
contract(M + '.default_origin', props=['C19'], assumed=True, returns='int', modifies=[],
         reason='returns general.origin (default 0); plain configuration access')


@spec
def general(m):
    return m._config['general']


contract(M + '._validate_config', props=['C19'],
         may_raise={'SystemExit': 'True', 'KeyError': 'True', 'TypeError': 'True'},
         ensures=[  # a definition that is accepted has its required sections ...
             "'general' in self._config", "'instructions' in self._config",
             # ... and its min_version gate holds BY SEMANTIC-VERSION ORDER: it does not demand a newer assembler than the
             # running one, nor an older format than the minimum supported
             "implies('min_version' in self._config['general'],"
             " not semver_lt(BESPOKEASM_VERSION_STR, self._config['general']['min_version'])"
             " and not semver_lt(self._config['general']['min_version'], BESPOKEASM_MIN_REQUIRED_STR))"],
         modifies=[],
         loops={'0': dict(idx='i', inv=["'general' in self._config"])})

# ---- operand configuration --------------------------------------------------------------------------------
NB = 'bespokeasm.assembler.model.operand.types.numeric_bytecode:NumericBytecode'
contract('bespokeasm.assembler.model.operand:Operand.__init__', props=['C19'],
         params={'operand_id': 'str', 'arg_config_dict': 'cfg', 'default_endian': 'str'},
         ensures=['self._id == operand_id', 'self._config is arg_config_dict', 'self._default_endian == default_endian'],
         modifies=['self._id', 'self._config', 'self._default_endian'])
contract(NB + '.__init__', props=['C19', 'C12'],
         params={'operand_id': 'str', 'arg_config_dict': 'cfg', 'default_endian': 'str'},
         may_raise={'SystemExit': 'True', 'KeyError': 'True'},
         ensures=[  # an inverted numeric range is never accepted
             "cfg_int(self._config['bytecode']['max']) >= cfg_int(self._config['bytecode']['min'])"],
         modifies=['self._id', 'self._config', 'self._default_endian'])

OP = 'bespokeasm.assembler.model.operand_parser:OperandParser'
contract(OP + '.validate', props=['C19', 'C13'],
         may_raise={'SystemExit': 'True', 'KeyError': 'True'},
         ensures=[  # operand counts match their operand lists: the operand sets ...
             "implies(self._operand_sets_model is not None,"
             " cfg_int(self._config['count']) == len(self._operand_sets_model._operand_sets))",
             # ... and every explicitly listed operand combination
             "implies(self._specific_operands_model is not None,"
             " forall(lambda j: implies(0 <= j and j < len(self._specific_operands_model._specific_operands),"
             " len(elems(self._specific_operands_model._specific_operands)[j]._operands) == cfg_int(self._config['count']))))"],
         modifies=[],
         loops={'0': dict(idx='i', inv=[
             "forall(lambda j: implies(0 <= j and j < i,"
             " len(elems(self._specific_operands_model._specific_operands)[j]._operands) == cfg_int(self._config['count'])))"])})

# ---- instruction set: mnemonics are not keywords, macro names are distinct from instruction names -----------------
IS = 'bespokeasm.assembler.model.instruction_set:InstructionSet.__init__'
NEWOBJ = dict(assumed=True, may_raise={'SystemExit': 'True'}, modifies=[], no_frame_check=True,
              reason='construction of one instruction / macro model from its own configuration entry (validated by its own kernels)')
contract('bespokeasm.assembler.model.instruction:Instruction.__init__', props=['C19'],
         params={'instruction_config': 'cfg', 'operand_set_collection': 'OperandSetCollection'},
         ensures=['self._mnemonic == mnemonic'], **NEWOBJ)
contract('bespokeasm.assembler.model.instruction_macro:InstructionMacro.__init__', props=['C19'],
         params={'macro_config_list': 'cfg', 'operand_set_collection': 'OperandSetCollection'},
         ensures=['self._mnemonic == mnemonic'], **NEWOBJ)

NO_KW = ('forall(lambda kw: implies(kw in ASSEMBLER_KEYWORD_SET, not (str_lower(kw) in self.__dict)), types={"kw": "str"})')
contract(IS, props=['C19'],
         params={'instructions_config': 'cfg', 'macros_config': 'cfg?', 'operand_set_collection': 'OperandSetCollection'},
         requires=['domain_empty(self.__dict)'],
         may_raise={'SystemExit': 'True'},
         ensures=[  # no accepted mnemonic -- instruction or macro -- is an assembler keyword, in any letter case
             NO_KW],
         modifies=['self._instructions_config', 'self._macros_config', 'self._instruction_mnemonics',
                   'self._macro_mnemonics', 'self.__dict[*]', 'self._instruction_mnemonics[*]', 'self._macro_mnemonics[*]'],
         allocates=True, no_frame_check=True,
         locals={'macro_list': 'list[InstructionMacro]'},
         loops={'0': dict(idx='i', allocates=True, modifies=['self.__dict[*]', 'self._instruction_mnemonics[*]'],
                          inv=[NO_KW, 'self._instruction_mnemonics is entry(self._instruction_mnemonics)']),
                '1': dict(idx='i', allocates=True, modifies=['macro_list[*]'],
                          inv=[NO_KW,
                               # macros collected so far: none is a keyword, none is an instruction name
                               'forall(lambda j: implies(0 <= j and j < len(macro_list), '
                               'not (elems(macro_list)[j]._mnemonic in self.__dict) and '
                               'forall(lambda kw: implies(kw in ASSEMBLER_KEYWORD_SET, str_lower(kw) != elems(macro_list)[j]._mnemonic), types={"kw": "str"})))']),
                '2': dict(idx='i', allocates=True, modifies=['self.__dict[*]', 'self._macro_mnemonics[*]'],
                          inv=[NO_KW, 'macro_list is entry(macro_list)', 'self._macro_mnemonics is entry(self._macro_mnemonics)',
                               'forall(lambda j: implies(i <= j and j < len(macro_list), '
                               'forall(lambda kw: implies(kw in ASSEMBLER_KEYWORD_SET, str_lower(kw) != elems(macro_list)[j]._mnemonic), types={"kw": "str"})))'])})

# ---- #require "<language> <op> <version>": honoured exactly when the ISA version satisfies the comparison -------------
RL = 'bespokeasm.assembler.line_object.preprocessor_line.required_language:RequiredLanguageLine.__init__'
declare_fields('RequiredLanguageLine', _language='str', _operator_str='str', _version_obj='version')


@spec
def ver_holds(op, a, b):
    """the stated comparison, in semantic-version order (a: the ISA's version, b: the required one)"""
    if op == '>=':
        return not semver_lt(a, b)
    if op == '<=':
        return not semver_lt(b, a)
    if op == '>':
        return semver_lt(b, a)
    if op == '<':
        return semver_lt(a, b)
    if op == '==':
        return not semver_lt(a, b) and not semver_lt(b, a)
    return False


OPS = 'str_strip(value_of(require_match.group(2)))'
VER = 'str_strip(value_of(require_match.group(3)))'
contract(RL, props=['C19'], name='require-line', blocks_only=True,
         params={'memzone': 'MemoryZone?'}, locals={'require_match': 'match', 'version_str': 'str'},
         blocks={'compare': dict(
             where='between:self._operator_str = ::if log_verbosity > 1', locals={},
             requires=['require_match.group(2) is not None', 'require_match.group(3) is not None'],
             # rejected exactly when the ISA's version does not satisfy the comparison (or the operator is unknown)
             raises={'SystemExit': f'not ver_holds({OPS}, isa_model._isa_version, {VER})'},
             ensures=[f'self._operator_str == {OPS}'],
             modifies=['self._operator_str', 'self._version_obj'], allocates=True)})

# ---- register names are not assembler keywords -------------------------------------------------------------------------
contract('bespokeasm.assembler.model:AssemblerModel.__init__', name='register-names', props=['C19'], blocks_only=True,
         blocks={'registers': dict(
             where='from:for reg in self._registers:1', locals={},
             requires=[],
             may_raise={'SystemExit': 'True'},
             ensures=['forall(lambda r: implies(r in self._registers, not (r in ASSEMBLER_KEYWORD_SET)), types={"r": "str"})'],
             modifies=[])},
         loops={'0': dict(idx='i', seq='order',
                          inv=['forall(lambda j: implies(0 <= j and j < i, not (elems(order)[j] in ASSEMBLER_KEYWORD_SET)))'])})

# ---- every operand set an instruction refers to is declared ------------------------------------------------------------
OSM_INIT = 'bespokeasm.assembler.model.operand_parser:OperandSetsModel.__init__'
contract(OSM_INIT, props=['C19'], params={'config': 'cfg', 'operand_set_collection': 'OperandSetCollection'},
         may_raise={'SystemExit': 'True'},
         ensures=['self._config is config', 'len(self._operand_sets) == cfg_len(config["list"])',
                  # accepted only if every listed name is a declared operand set, taken in the listed order
                  'forall(lambda j: implies(0 <= j and j < len(self._operand_sets), cfg_str(cfg_item(config["list"], j)) in'
                  ' operand_set_collection.__dict and elems(self._operand_sets)[j] is'
                  ' mapping(operand_set_collection.__dict)[cfg_str(cfg_item(config["list"], j))]))'],
         modifies=['self._config', 'self._operand_sets'], allocates=True,
         loops={'0': dict(idx='i', modifies=['self._operand_sets[*]'],
                          inv=['len(self._operand_sets) == i', 'i <= cfg_len(config["list"])', 'self._config is config', 'fresh(self._operand_sets)',
                               'forall(lambda j: implies(0 <= j and j < i, cfg_str(cfg_item(config["list"], j)) in'
                               ' operand_set_collection.__dict and elems(self._operand_sets)[j] is'
                               ' mapping(operand_set_collection.__dict)[cfg_str(cfg_item(config["list"], j))]))'])})


# ---- every variant's operand configuration is validated when the ISA definition is loaded (not when it is first used) ----
@spec
def parser_counts_ok(p):
    """what OperandParser.validate establishes: operand counts match the operand-set list and every listed combination"""
    return (implies(p._operand_sets_model is not None,
                    cfg_int(p._config['count']) == len(p._operand_sets_model._operand_sets))
            and implies(p._specific_operands_model is not None,
                        forall(lambda j: implies(0 <= j and j < len(p._specific_operands_model._specific_operands),
                                                 len(elems(p._specific_operands_model._specific_operands)[j]._operands)
                                                 == cfg_int(p._config['count'])))))


contract(OP + '.__init__', name='abs:OperandParser.__init__', props=['C19'], assumed=True,
         reason='construction of the operand models of one variant (OperandSetsModel.__init__ / SpecificOperandsModel are kernels of '
                'their own); allocates only',
         params={'instruction_operands_config': 'cfg?', 'operand_set_collection': 'OperandSetCollection'},
         may_raise={'SystemExit': 'True', 'TypeError': 'True', 'KeyError': 'True'}, ensures=[], modifies=[], allocates=True,
         no_frame_check=True)
contract('bespokeasm.assembler.model.instruction:InstructionVariant.__init__', name='variant-is-validated', props=['C19'],
         params={'instruction_variant_config': 'cfg', 'operand_set_collection': 'OperandSetCollection'},
         may_raise={'SystemExit': 'True', 'KeyError': 'True'},
         ensures=['"bytecode" in instruction_variant_config',
                  # a variant with operands leaves the constructor with its operand parser built AND validated
                  'implies("operands" in instruction_variant_config, self._operand_parser is not None'
                  ' and parser_counts_ok(value_of(self._operand_parser)))',
                  'implies(not ("operands" in instruction_variant_config), self._operand_parser is None)'],
         modifies=['self._mnemonic', 'self._default_endian', 'self._registers', 'self._variant_config', 'self._operand_parser'],
         allocates=True, no_frame_check=True)
