"""Abstract (assumed) contract of expression evaluation used by every property except C07.

It says only: evaluation either exits or returns an int that is a function of the expression tree, the scope
chain and the label tables (the heap components listed in XREADS), and it writes nothing.  C07 verifies the
real evaluator against the arithmetic reading; the other properties need no more than this."""
from pyvc.registry import contract, spec
from . import common  # noqa

XREADS = ['ExpressionNode.token_type', 'ExpressionNode.left_child', 'ExpressionNode.right_child',
          'LabelScope._labels', 'LabelScope._parent', 'LabelScope._type', 'dict[str,LabelInfo]', 'LabelInfo._value',
          'GlobalLabelScope._register_labels', 'set[str]']


@spec(uninterpreted=True, sig=['ExpressionNode', 'LabelScope?', 'int'], heap_reads=XREADS)
def xval(node, scope):
    """value of the expression in the scope (abstract)"""


@spec(uninterpreted=True, sig=['ExpressionNode', 'LabelScope?', 'bool'], heap_reads=XREADS)
def xfails(node, scope):
    """evaluation exits (unresolvable label, register used as number, ...) (abstract)"""


contract('bespokeasm.expression:ExpressionNode.get_value',
         props=['C01', 'C02', 'C05', 'C10', 'C11', 'C12', 'C14', 'C16'],
         assumed=True,
         reason='expression evaluation is deterministic in (tree, scope chain, label tables), writes nothing, '
                'and fails only by exiting; its arithmetic is the subject of C07',
         params={'label_scope': 'LabelScope?'},
         raises={'SystemExit': 'xfails(self, label_scope)'},
         ensures=['result == xval(self, label_scope)'],
         modifies=[])
