"""C05 - memory zones confine and sequence the code assigned to them (kernels)."""
from pyvc.registry import contract, spec, implies
from . import common  # noqa

MZ = 'bespokeasm.assembler.memory_zone:MemoryZone'


@spec
def zone_ok(z):
    """class invariant of a constructed zone"""
    return z._start <= z._end and z._start <= z._current_address and z._current_address <= z._end + 1


contract(MZ + '.__init__', props=['C05', 'C19'],
         requires=['address_bits >= 0'],
         raises={'ValueError': 'end > 2**address_bits - 1 or start > end'},
         ensures=['self._start == start', 'self._end == end', 'self._name == name',
                  'self._current_address == start', 'self._address_bits == address_bits',
                  'zone_ok(self)', 'self._end <= 2**address_bits - 1'],
         modifies=['self._address_bits', 'self._start', 'self._end', 'self._name', 'self._current_address'])

contract(MZ + '.current_address.setter', props=['C05', 'C02'],
         requires=['zone_ok(self)'],
         raises={'ValueError': 'value < self._start or value > self._end + 1'},
         ensures=['self._current_address == value', 'zone_ok(self)'],
         modifies=['self._current_address'])

# ---- the zone manager: every zone it holds lies inside GLOBAL; names are unique ---------------------------------------
MGR = 'bespokeasm.assembler.memory_zone.manager:MemoryZoneManager'


@spec
def inside_global(mgr, z):
    return (mapping(mgr._zones)['GLOBAL']._start <= z._start and z._end <= mapping(mgr._zones)['GLOBAL']._end)


@spec
def zones_wf(mgr):
    """the manager's invariant: GLOBAL exists and every zone is a well-formed zone inside it"""
    return ('GLOBAL' in mgr._zones
            and forall(lambda n: implies(n in mgr._zones, zone_ok(mapping(mgr._zones)[n])
                                         and inside_global(mgr, mapping(mgr._zones)[n])), types={'n': 'str'}))


contract(MGR + '.global_zone', props=['C05'], raises={'KeyError': 'not ("GLOBAL" in self._zones)'},
         ensures=['result is mapping(self._zones)["GLOBAL"]'], modifies=[])

contract(MGR + '.create_zone', props=['C05', 'C04'],
         requires=['zones_wf(self)', 'address_bits >= 0'],
         # a zone declared in source is rejected if its name is taken, if it is not contained in GLOBAL, if it is inverted
         # or exceeds the address width
         raises={'KeyError': 'name in self._zones',
                 'ValueError': 'not (name in self._zones) and (start < mapping(self._zones)["GLOBAL"]._start'
                               ' or end > mapping(self._zones)["GLOBAL"]._end or end > 2**address_bits - 1 or start > end)'},
         ensures=['name in self._zones', 'mapping(self._zones)[name] is result', 'result._start == start',
                  'result._end == end', 'result._current_address == start', 'zones_wf(self)',
                  'forall(lambda n: implies(n != name, (n in self._zones) == old(n in self._zones)), types={"n": "str"})',
                  'forall(lambda n: implies(n != name and (n in self._zones), mapping(self._zones)[n] is'
                  ' old(mapping(self._zones))[n]), types={"n": "str"})'],
         modifies=['self._zones[*]'], allocates=True)

# the containment check of predefined zones when the manager is set up (the loop added by fix 83cb0b1)
contract(MGR + '.__init__', props=['C05'], blocks_only=True,
         params={'predefined_zones': 'cfg'},
         blocks={'predefined-inside-global': dict(
             where='loop[0]', locals={},
             requires=['"GLOBAL" in self._zones'],
             may_raise={'SystemExit': 'True'},
             ensures=['forall(lambda n: implies(n in self._zones, inside_global(self, mapping(self._zones)[n])),'
                      ' types={"n": "str"})'],
             modifies=[])},
         loops={'0': dict(idx='i', seq='order', inv=[
             'forall(lambda j: implies(0 <= j and j < i, inside_global(self, elems(order)[j])))'])})


# ---- the lines that select / create zones in source ---------------------------------------------------------------------
from pyvc.registry import declare_fields  # noqa: E402
from .c11_data import text_value, text_fails  # noqa: E402,F401
declare_fields('CreateMemzoneLine', _name='str', _start_addr='int', _end_addr='int')
ZNAME = 'ite(name_str is None, "GLOBAL", value_of(name_str))'
# `.memzone NAME` / `.org A "NAME"`: the line belongs to the zone of that name (GLOBAL when none is given); an unknown name
# is rejected
contract('bespokeasm.assembler.line_object.directive_line.memzone:SetMemoryZoneLine.__init__', name='select-zone',
         props=['C05', 'C02'], params={'name_str': 'str?'},
         raises={'SystemExit': f'not ({ZNAME} in memzone_manager._zones)'},
         ensures=[f'self._memzone is mapping(memzone_manager._zones)[{ZNAME}]', f'self._name == {ZNAME}',
                  'self._memzone_manager is memzone_manager'],
         modifies=['self._memzone_manager', 'self._name', 'self._line_id', 'self._instruction', 'self._comment', 'self._address',
                   'self._memzone', 'self._compilable', 'self._is_muted', 'self._label_scope'],
         no_frame_check=True)

contract('bespokeasm.utilities:parse_numeric_string', name='abs:parse_numeric_string', props=['C05'], assumed=True,
         reason='numeric literal notation: verified for C07 (contracts/c07_expressions.py, `literal-notations`); here only its use',
         may_raise={'SystemExit': 'True', 'ValueError': 'True'}, ensures=[], modifies=[], no_frame_check=True)
# `#create_memzone NAME start end`: the zone registered under NAME is exactly [start, end], and only if it lies inside GLOBAL
contract('bespokeasm.assembler.line_object.preprocessor_line.create_memzone:CreateMemzoneLine.__init__', name='create-zone-line',
         props=['C05'], params={'memzone': 'MemoryZone?', 'isa_model': 'AssemblerModel'},
         requires=['zones_wf(memzone_manager)', 'cfg_int(isa_model._config["general"]["address_size"]) >= 0'],
         # (none of the three groups of the directive's pattern is optional: trusted fact about that regular expression)
         regex_facts={'CreateMemzoneLine.PATTERN_CREATE_MEMORY_ZONE': [1, 2, 3]},
         may_raise={'SystemExit': 'True', 'ValueError': 'True', 'KeyError': 'True'},
         ensures=['self._name in memzone_manager._zones',
                  # a name that is already a zone -- declared earlier, predefined, or GLOBAL -- is rejected, whatever its bounds
                  'forall(lambda s: implies(old(s in memzone_manager._zones), self._name != s), types={"s": "str"})',
                  'mapping(memzone_manager._zones)[self._name]._start == self._start_addr',
                  'mapping(memzone_manager._zones)[self._name]._end == self._end_addr',
                  'inside_global(memzone_manager, mapping(memzone_manager._zones)[self._name])',
                  'zones_wf(memzone_manager)'],
         modifies=['memzone_manager._zones[*]'], allocates=True, no_frame_check=True)

# `.org A` / `.org A "NAME"`: the origin is the value of the expression as written, relative to the named zone exactly when a
# name was written (AddressOrgLine.address, C02, reads these two fields)
contract('bespokeasm.assembler.line_object.directive_line.address:AddressOrgLine.__init__', name='org-line',
         props=['C05', 'C02'], params={'memzone_name': 'str?'},
         may_raise={'SystemExit': 'True', 'SyntaxError': 'True'},
         ensures=['(self._parsed_memzone_name is None) == (memzone_name is None)',
                  'implies(memzone_name is not None, value_of(self._parsed_memzone_name) == value_of(memzone_name))',
                  'self._memzone is mapping(memzone_manager._zones)[ite(memzone_name is None, "GLOBAL", value_of(memzone_name))]',
                  'self._memzone_manager is memzone_manager',
                  'forall(lambda s: xval(self._address_expr, s) == text_value(address_expression, s)'
                  ' and xfails(self._address_expr, s) == text_fails(address_expression, s), types={"s": "LabelScope?"})'],
         modifies=[], allocates=True, no_frame_check=True)

# `.align [expr]`: the page size is the expression as written, else the configured default (read by set_start_address, C02)
contract('bespokeasm.assembler.line_object.directive_line.page_align:PageAlignLine.__init__', name='align-line',
         props=['C02'],
         may_raise={'SystemExit': 'True', 'SyntaxError': 'True', 'ValueError': 'True'},
         ensures=['self._memzone is memzone',
                  # no expression written: the default, as a number
                  'implies(not typeis_union_ref(self._page_size), union_is_int(self._page_size)'
                  ' and union_int(self._page_size) == default_page_size)'],
         modifies=[], allocates=True, no_frame_check=True)


# the directive factory: a `.memzone` / `.org` line always becomes a zone-selecting line (it closes the local-label region,
# C06, and switches the zone, C05 -- both in the per-line-object block of the loader, which tests for this class)
contract('bespokeasm.assembler.line_object.directive_line.factory:DirectiveLine.factory', name='zone-directives',
         props=['C05', 'C06', 'C02'], blocks_only=True, returns='LineObject?',
         regex_facts={'DirectiveLine.PATTERN_SET_MEMZONE_DIRECTIVE': [1], 'DirectiveLine.PATTERN_ORG_DIRECTIVE': [1]},
         params={'line_id': 'LineIdentifier', 'current_memzone': 'MemoryZone?'},
         locals={'line_match': 'match?', 'cleaned_line_str': 'str'},
         blocks={
             'memzone': dict(
                 where='from:line_match = re.search(DirectiveLine.PATTERN_SET_MEMZONE_DIRECTIVE:2', locals={},
                 requires=[], may_raise={'SystemExit': 'True'}, ensures=[],
                 on_return=['result is not None and isa(value_of(result), "SetMemoryZoneLine")',
                            'value_of(result)._memzone is mapping(memzone_manager._zones)[value_of(value_of(line_match).group(1))]'],
                 modifies=[], allocates=True),
             'org': dict(
                 where='from:line_match = re.search(DirectiveLine.PATTERN_ORG_DIRECTIVE:2', locals={},
                 requires=[], may_raise={'SystemExit': 'True', 'SyntaxError': 'True'}, ensures=[],
                 on_return=['result is not None and isa(value_of(result), "AddressOrgLine")',
                            '(value_of(result)._parsed_memzone_name is None) == (value_of(line_match).group(2) is None)'],
                 modifies=[], allocates=True)})
