"""C05 - memory zones confine and sequence the code assigned to them (kernels)."""
from pyvc.registry import contract, spec, implies
from . import common  # noqa

MZ = 'bespokeasm.assembler.memory_zone:MemoryZone'


@spec
def zone_ok(z):
    """class invariant of a constructed zone"""
    return z._start <= z._end and z._start <= z._current_address and z._current_address <= z._end + 1


contract(MZ + '.__init__', props=['C05', 'C19'],
         requires=['address_bits >= 0'],
         raises={'ValueError': 'end > 2**address_bits - 1 or start > end'},
         ensures=['self._start == start', 'self._end == end', 'self._name == name',
                  'self._current_address == start', 'self._address_bits == address_bits',
                  'zone_ok(self)', 'self._end <= 2**address_bits - 1'],
         modifies=['self._address_bits', 'self._start', 'self._end', 'self._name', 'self._current_address'])

contract(MZ + '.current_address.setter', props=['C05'],
         requires=['zone_ok(self)'],
         raises={'ValueError': 'value < self._start or value > self._end + 1'},
         ensures=['self._current_address == value', 'zone_ok(self)'],
         modifies=['self._current_address'])
