"""C01 - how the generator builds the parts of an instruction: opcode and suffix in the instruction's byte order with
their configured widths; an enumeration operand's fields exactly as its dictionaries give them (0 included)."""
from pyvc.registry import contract, spec, declare_fields
from . import common, c13_selection, c10_macros  # noqa

GEN = 'bespokeasm.assembler.bytecode.generator.instruction:InstructionBytecodeGenerator'
declare_fields('EnumerationOperand', _bytecode_dictionary='cfg?', _argument_dictionary='cfg?')


@spec
def variant_endian(variant, isa_model):
    """an instruction's own bytecode.endian, else the ISA's byte order (big unless configured)"""
    if 'endian' in variant._variant_config['bytecode']:
        return cfg_str(variant._variant_config['bytecode']['endian'])
    if 'endian' in isa_model._config['general']:
        return cfg_str(isa_model._config['general']['endian'])
    return 'big'


BC = "variant._variant_config['bytecode']"
contract(GEN + '.generate_variant_bytecode_parts', props=['C01'], name='opcode-parts', blocks_only=True,
         params={'cls': 'opaque', 'operands': 'str?'}, returns='AssembledInstruction?',
         locals={'operand_list': 'list[str]', 'base_bytecode': 'NumericByteCodePart',
                 'base_bytecode_suffix': 'NumericByteCodePart?'},
         blocks={'opcode': dict(
             where='between:if operands is not None and operands != ::if variant._operand_parser is not None', locals={},
             # (a variant is constructed with the ISA's byte order as its default)
             requires=['variant._default_endian == ite("endian" in isa_model._config["general"],'
                       ' cfg_str(isa_model._config["general"]["endian"]), "big")'],
             may_raise={'SystemExit': 'True', 'KeyError': 'True'},
             ensures=[
                 # the opcode: its configured value and width, never byte-aligned, in the instruction's byte order
                 f'base_bytecode._value == cfg_int({BC}["value"])', f'base_bytecode._value_size == cfg_int({BC}["size"])',
                 'not base_bytecode._byte_align', 'base_bytecode._endian == variant_endian(variant, isa_model)',
                 # the suffix exists exactly when configured, and is emitted in the SAME byte order as the opcode
                 f'(base_bytecode_suffix is not None) == ("suffix" in {BC})',
                 f'implies(base_bytecode_suffix is not None, base_bytecode_suffix._value == cfg_int({BC}["suffix"]["value"])'
                 f' and base_bytecode_suffix._value_size == cfg_int({BC}["suffix"]["size"])'
                 ' and not base_bytecode_suffix._byte_align'
                 ' and base_bytecode_suffix._endian == variant_endian(variant, isa_model))'],
             modifies=[], allocates=True),
             'assemble': dict(
             where='from:if variant._operand_parser is not None:2', locals={},
             requires=['allocated(base_bytecode)', 'implies(base_bytecode_suffix is not None, allocated(base_bytecode_suffix))'],
             may_raise={'SystemExit': 'True', 'KeyError': 'True', 'NotImplementedError': 'True', 'AttributeError': 'True'},
             ensures=[],
             on_return=[
                 # an instruction without operands is its opcode followed by its opcode suffix, if it has one
                 'implies(result is not None and variant._operand_parser is None, len(value_of(result)._parts) == 1 + ite('
                 'base_bytecode_suffix is not None, 1, 0) and elems(value_of(result)._parts)[0] is base_bytecode and implies('
                 'base_bytecode_suffix is not None, elems(value_of(result)._parts)[1] is base_bytecode_suffix))',
                 # and it is not accepted with operands
                 'implies(result is not None and variant._operand_parser is None, len(operand_list) == 0)'],
             modifies=[], allocates=True)},
         assume_pre={'AssembledInstruction.__init__': 'field widths are configured sizes (bounded far below 2**40) and an instruction has '
                     'few parts; the bound only keeps the float division of the size computation exact'})

EN = 'bespokeasm.assembler.model.operand.types.enumeration_operand:EnumerationOperand.parse_operand'
BD, AD = 'self._bytecode_dictionary', 'self._argument_dictionary'
contract(EN, props=['C01', 'C13'], blocks_only=True, returns='ParsedOperand?',
         locals={'matched_key': 'str', 'bytecode_part': 'NumericByteCodePart?', 'arg_part': 'NumericByteCodePart?', 'match': 'match'},
         blocks={'fields': dict(
             where='between:matched_key = ::if bytecode_part is None and arg_part is None', locals={},
             # (established by __init__: a dictionary is read only from the section that exists)
             requires=[f'implies({BD} is not None, "bytecode" in self._config)',
                       f'implies({AD} is not None, "argument" in self._config)'],
             may_raise={'SystemExit': 'True', 'KeyError': 'True', 'AttributeError': 'True'},
             ensures=[
                 # a key that the byte-code dictionary lists (with a value) gets its code field -- whatever the value, 0 included
                 f'(bytecode_part is not None) == ({BD} is not None and {BD}.get(matched_key, None) is not None)',
                 f'implies(bytecode_part is not None, bytecode_part._value == cfg_int({BD}[matched_key])'
                 ' and bytecode_part._value_size == cfg_int(self._config["bytecode"]["size"])'
                 ' and not bytecode_part._byte_align and bytecode_part._endian == "big")',
                 # and a key that the argument dictionary lists gets its argument field
                 f'(arg_part is not None) == ({AD} is not None and {AD}.get(matched_key, None) is not None)',
                 f'implies(arg_part is not None, arg_part._value == cfg_int({AD}[matched_key])'
                 ' and arg_part._value_size == cfg_int(self._config["argument"]["size"]))'],
             modifies=[], allocates=True)})

# ---- the order of the parts of an instruction (MatchedOperandSet.generate_bytecode) ------------------------------------
MOS = 'bespokeasm.assembler.model.operand_parser:MatchedOperandSet.generate_bytecode'


@spec(rec=True, sig=['arr[ParsedOperand]', 'arr[bool]', 'int', 'int'])
def cntf(ops, flag, i):
    """how many of the first i operands have the flag"""
    if i <= 0:
        return 0
    return cntf(ops, flag, i - 1) + ite(flag[ops[i - 1]], 1, 0)


@spec
def op_pos(po):
    """configured position of an operand's code: 'prefix', 'suffix' (the default), or '' when it has no code section"""
    if 'bytecode' in po._operand._config:
        return cfg_str(po._operand._config['bytecode'].get('position', 'suffix'))
    return ''


OPS = 'elems(self._operands)'
N = 'len(self._operands)'
FP = 'lam(lambda r: r._bytecode is not None and op_pos(r) == "prefix", types={"r": "ParsedOperand"})'
FS = 'lam(lambda r: r._bytecode is not None and op_pos(r) == "suffix", types={"r": "ParsedOperand"})'
FA = 'lam(lambda r: r._argument is not None, types={"r": "ParsedOperand"})'
NP, NS, NA = f'cntf({OPS}, {FP}, {N})', f'cntf({OPS}, {FS}, {N})', f'cntf({OPS}, {FA}, {N})'
SFX1 = 'ite(base_bytecode_suffix is not None, 1, 0)'
contract(MOS, props=['C01'],
         params={'base_bytecode': 'ByteCodePart', 'base_bytecode_suffix': 'ByteCodePart?'}, returns='list[ByteCodePart]',
         may_raise={'SystemExit': 'True', 'KeyError': 'True'},
         ensures=[
             # prefix codes, the opcode, suffix codes, the opcode suffix, the arguments -- nothing else
             f'len(result) == {NP} + 1 + {NS} + {SFX1} + {NA}',
             f'elems(result)[{NP}] is base_bytecode',
             f'implies(base_bytecode_suffix is not None, elems(result)[{NP} + 1 + {NS}] is base_bytecode_suffix)',
             # prefix codes stand before the opcode, the later operand first -- operand order when the codes are reversed
             f'forall(lambda j: implies(0 <= j and j < {N} and {FP}[{OPS}[j]], elems(result)[ite(self._reverse_op_bytecode_order,'
             f' cntf({OPS}, {FP}, j), {NP} - 1 - cntf({OPS}, {FP}, j))] is {OPS}[j]._bytecode))',
             # suffix codes follow the opcode in operand order -- reversed when the codes are reversed
             f'forall(lambda j: implies(0 <= j and j < {N} and {FS}[{OPS}[j]], elems(result)[{NP} + 1 + ite('
             f'self._reverse_op_bytecode_order, {NS} - 1 - cntf({OPS}, {FS}, j), cntf({OPS}, {FS}, j))] is {OPS}[j]._bytecode))',
             # the arguments come last, in operand order -- reversed exactly when the argument order is reversed
             f'forall(lambda j: implies(0 <= j and j < {N} and {FA}[{OPS}[j]], elems(result)[{NP} + 1 + {NS} + {SFX1} + ite('
             f'self._reverse_arg_order, {NA} - 1 - cntf({OPS}, {FA}, j), cntf({OPS}, {FA}, j))] is {OPS}[j]._argument))'],
         modifies=[], allocates=True,
         locals={'machine_code': 'list[ByteCodePart]', 'suffix_op_bytecode': 'list[ByteCodePart]',
                 'prefix_op_bytecode': 'list[ByteCodePart]', 'arguments': 'list[ByteCodePart]'},
         loops={
             '0': dict(idx='i', allocates=True, modifies=['suffix_op_bytecode[*]', 'prefix_op_bytecode[*]'],
                       inv=[f'i <= {N}', 'fresh(suffix_op_bytecode)', 'fresh(prefix_op_bytecode)', 'fresh(machine_code)',
                            'suffix_op_bytecode is not prefix_op_bytecode', 'machine_code is not prefix_op_bytecode',
                            'machine_code is not suffix_op_bytecode',
                            'len(machine_code) == 1 and elems(machine_code)[0] is base_bytecode',
                            f'len(prefix_op_bytecode) == cntf({OPS}, {FP}, i)', f'len(suffix_op_bytecode) == cntf({OPS}, {FS}, i)',
                            f'forall(lambda j: implies(0 <= j and j < i and {FP}[{OPS}[j]], elems(prefix_op_bytecode)['
                            f'cntf({OPS}, {FP}, i) - 1 - cntf({OPS}, {FP}, j)] is {OPS}[j]._bytecode))',
                            f'forall(lambda j: implies(0 <= j and j < i and {FS}[{OPS}[j]], elems(suffix_op_bytecode)['
                            f'cntf({OPS}, {FS}, j)] is {OPS}[j]._bytecode))',
                            f'forall(lambda j: implies(0 <= j and j < i and {FP}[{OPS}[j]], 0 <= cntf({OPS}, {FP}, j) and '
                            f'cntf({OPS}, {FP}, j) < cntf({OPS}, {FP}, i)))',
                            f'forall(lambda j: implies(0 <= j and j < i and {FS}[{OPS}[j]], 0 <= cntf({OPS}, {FS}, j) and '
                            f'cntf({OPS}, {FS}, j) < cntf({OPS}, {FS}, i)))',
                            f'0 <= cntf({OPS}, {FP}, i) and 0 <= cntf({OPS}, {FS}, i)']),
             'comp0': dict(idx='c', allocates=True, modifies=['arguments[*]'],
                           inv=[f'c <= {N}', 'fresh(arguments)', 'arguments is not machine_code',
                                f'len(arguments) == cntf({OPS}, {FA}, c)',
                                f'forall(lambda j: implies(0 <= j and j < c and {FA}[{OPS}[j]], elems(arguments)['
                                f'cntf({OPS}, {FA}, j)] is {OPS}[j]._argument))',
                                f'forall(lambda j: implies(0 <= j and j < c and {FA}[{OPS}[j]], 0 <= cntf({OPS}, {FA}, j) and '
                                f'cntf({OPS}, {FA}, j) < cntf({OPS}, {FA}, c)))',
                                f'0 <= cntf({OPS}, {FA}, c)']),
             '1': dict(idx='k', modifies=['machine_code[*]'],
                       inv=['k <= len(arguments)', 'arguments is not machine_code',
                            f'len(machine_code) == {NP} + 1 + {NS} + {SFX1} + k',
                            f'forall(lambda q: implies({NP} + 1 + {NS} + {SFX1} <= q and q < {NP} + 1 + {NS} + {SFX1} + k,'
                            f' elems(machine_code)[q] is elems(arguments)[q - ({NP} + 1 + {NS} + {SFX1})]))',
                            f'forall(lambda t: implies(0 <= t and t < {NP} + 1 + {NS} + {SFX1}, elems(machine_code)[t] is'
                            ' entry(elems(machine_code))[t]))'])})

# ---- a numeric operand's parts: configured widths, alignment and byte order --------------------------------------------
NEP = 'bespokeasm.assembler.model.operand.types.numeric_expression:NumericExpressionOperand._parse_bytecode_parts'


@spec
def arg_endian(o):
    """an operand argument's own endian, else the default the operand was created with"""
    if 'endian' in o._config['argument']:
        return cfg_str(o._config['argument']['endian'])
    return o._default_endian


contract(NEP, name='numeric-operand-parts', props=['C01'], returns='ParsedOperand?',
         requires=['"argument" in self._config', '"size" in self._config["argument"]'],
         may_raise={'SystemExit': 'True', 'SyntaxError': 'True', 'KeyError': 'True'},
         ensures=[
             # the argument field: exactly the configured width, alignment and byte order
             'implies(result is not None, result._argument is not None'
             ' and value_of(result._argument)._value_size == cfg_int(self._config["argument"]["size"])'
             ' and value_of(result._argument)._byte_align == cfg_bool(self._config["argument"]["byte_align"])'
             ' and value_of(result._argument)._endian == arg_endian(self))',
             # the operand's own code field, when it has one: configured value and width, never aligned
             'implies(result is not None and "bytecode" in self._config and result._bytecode is not None,'
             ' isa(value_of(result._bytecode), "NumericByteCodePart")'
             ' and value_of(result._bytecode)._value_size == cfg_int(self._config["bytecode"]["size"])'
             ' and value_of(result._bytecode)._value == cfg_int(self._config["bytecode"]["value"])'
             ' and not value_of(result._bytecode)._byte_align)',
             'implies(result is not None and not ("bytecode" in self._config), result._bytecode is None)',
             # (NumericEnumerationOperand, a subclass, looks its code up in a dictionary and has its own parse_operand)
             'implies(result is not None and "bytecode" in self._config and not isa(self, "NumericEnumerationOperand"),'
             ' result._bytecode is not None)'],
         modifies=[], allocates=True, no_frame_check=True)

# ---- address / relative-address / register operands: the parts they build ---------------------------------------------
OT = 'bespokeasm.assembler.model.operand.types.'
INIT_KEEPS = ['self._value_size == value_size', 'self._byte_align == byte_align', 'self._endian == endian']
contract(OT + 'address:AddressByteCodePart.__init__', props=['C01', 'C12'], params={'memzone': 'MemoryZone?'},
         may_raise={'SystemExit': 'True', 'SyntaxError': 'True'},
         ensures=INIT_KEEPS + ['self._is_lsb_bytes == is_lsb_bytes', 'self._match_address_msb == match_address_msb'],
         modifies=[], allocates=True, no_frame_check=True)
contract(OT + 'relative_address:RelativeAddressByteCodePart.__init__', props=['C01', 'C12'],
         params={'memzone': 'MemoryZone?', 'min_relative_value': 'int?', 'max_relative_value': 'int?'},
         may_raise={'SystemExit': 'True', 'SyntaxError': 'True'},
         # the configured limits and the end-relative flag reach the part unchanged
         ensures=INIT_KEEPS + ['self._min_relative_value == min_relative_value', 'self._max_relative_value == max_relative_value',
                               'self._offset_from_instruction_end == offset_from_instruction_end'],
         modifies=[], allocates=True, no_frame_check=True)

ARG_OK = ('implies(result is not None, result._argument is not None'
          ' and value_of(result._argument)._value_size == cfg_int(self._config["argument"]["size"])'
          ' and value_of(result._argument)._byte_align == cfg_bool(self._config["argument"]["byte_align"])'
          ' and value_of(result._argument)._endian == arg_endian(self))')
CODE_OK = ('implies(result is not None and "bytecode" in self._config and result._bytecode is not None,'
           ' isa(value_of(result._bytecode), "NumericByteCodePart")'
           ' and value_of(result._bytecode)._value_size == cfg_int(self._config["bytecode"]["size"])'
           ' and value_of(result._bytecode)._value == cfg_int(self._config["bytecode"]["value"])'
           ' and not value_of(result._bytecode)._byte_align)')
NO_CODE = 'implies(result is not None and not ("bytecode" in self._config), result._bytecode is None)'
# (an operand configured with a code field always contributes it -- whatever its value, 0 included)
HAS_CODE = 'implies(result is not None and "bytecode" in self._config, result._bytecode is not None)'
ARGCFG = ['"argument" in self._config', '"size" in self._config["argument"]']
contract(OT + 'address:AddressOperand._parse_bytecode_parts', name='address-operand-parts', props=['C01'],
         returns='ParsedOperand?', requires=ARGCFG,
         may_raise={'SystemExit': 'True', 'SyntaxError': 'True', 'KeyError': 'True', 'ValueError': 'True'},
         ensures=[ARG_OK, CODE_OK, NO_CODE, HAS_CODE, 'implies(result is not None, result._operand_str == operand)'],
         modifies=[], allocates=True, no_frame_check=True)
contract(OT + 'relative_address:RelativeAddressOperand.parse_operand', name='relative-operand-parts', props=['C01', 'C12'],
         returns='ParsedOperand?', requires=ARGCFG,
         may_raise={'SystemExit': 'True', 'SyntaxError': 'True', 'KeyError': 'True', 'AttributeError': 'True'},
         ensures=[ARG_OK, CODE_OK, NO_CODE, HAS_CODE,
                  # the configured limits of the offset and the "measured from the last byte" flag are the part's
                  'implies(result is not None, isa(value_of(result._argument), "RelativeAddressByteCodePart"))',
                  'implies(result is not None, value_of(result._argument)._offset_from_instruction_end == ite('
                  '"offset_from_instruction_end" in self._config, cfg_bool(self._config["offset_from_instruction_end"]), False))',
                  'implies(result is not None and "min" in self._config["argument"] and self._config["argument"].get("min", None) is not None,'
                  ' value_of(result._argument)._min_relative_value is not None and value_of(value_of(result._argument)._min_relative_value)'
                  ' == cfg_int(self._config["argument"]["min"]))',
                  'implies(result is not None and "max" in self._config["argument"] and self._config["argument"].get("max", None) is not None,'
                  ' value_of(result._argument)._max_relative_value is not None and value_of(value_of(result._argument)._max_relative_value)'
                  ' == cfg_int(self._config["argument"]["max"]))'],
         modifies=[], allocates=True, no_frame_check=True)
contract(OT + 'register:RegisterOperand.parse_operand', name='register-operand-parts', props=['C01'],
         returns='ParsedOperand?', may_raise={'SystemExit': 'True', 'KeyError': 'True'},
         ensures=['implies(result is not None, result._argument is None)', CODE_OK, NO_CODE, HAS_CODE],
         modifies=[], allocates=True, no_frame_check=True)


# ---- indirect register operands: code field as for a register, the offset field exactly as configured ------------------
declare_fields('IndirectRegisterOperand', _parse_pattern='opaque')
@spec
def offset_endian(o):
    """the offset's own endian, else the default the operand was created with"""
    if 'endian' in o._config['offset']:
        return cfg_str(o._config['offset']['endian'])
    return o._default_endian


OFFSET_OK = ('implies(result is not None and "offset" in self._config, result._argument is not None'
             ' and value_of(result._argument)._value_size == cfg_int(self._config["offset"]["size"])'
             ' and value_of(result._argument)._byte_align == cfg_bool(self._config["offset"]["byte_align"])'
             ' and value_of(result._argument)._endian == offset_endian(self))')
NO_OFFSET = 'implies(result is not None and not ("offset" in self._config), result._argument is None)'
contract(OT + 'indirect_register:IndirectRegisterOperand.parse_operand', name='indirect-register-operand-parts',
         props=['C01'], returns='ParsedOperand?',
         may_raise={'SystemExit': 'True', 'KeyError': 'True', 'SyntaxError': 'True', 'AttributeError': 'True'},
         ensures=[OFFSET_OK, NO_OFFSET, CODE_OK, NO_CODE, HAS_CODE],
         modifies=[], allocates=True, no_frame_check=True)
