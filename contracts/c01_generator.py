"""C01 - how the generator builds the parts of an instruction: opcode and suffix in the instruction's byte order with
their configured widths; an enumeration operand's fields exactly as its dictionaries give them (0 included)."""
from pyvc.registry import contract, spec, declare_fields
from . import common, c13_selection, c10_macros  # noqa

GEN = 'bespokeasm.assembler.bytecode.generator.instruction:InstructionBytecodeGenerator'
declare_fields('EnumerationOperand', _bytecode_dictionary='cfg?', _argument_dictionary='cfg?')


@spec
def variant_endian(variant, isa_model):
    """an instruction's own bytecode.endian, else the ISA's byte order (big unless configured)"""
    if 'endian' in variant._variant_config['bytecode']:
        return cfg_str(variant._variant_config['bytecode']['endian'])
    if 'endian' in isa_model._config['general']:
        return cfg_str(isa_model._config['general']['endian'])
    return 'big'


BC = "variant._variant_config['bytecode']"
contract(GEN + '.generate_variant_bytecode_parts', props=['C01'], name='opcode-parts', blocks_only=True,
         params={'cls': 'opaque', 'operands': 'str?'}, returns='AssembledInstruction?',
         locals={'operand_list': 'list[str]', 'base_bytecode': 'NumericByteCodePart',
                 'base_bytecode_suffix': 'NumericByteCodePart?'},
         blocks={'opcode': dict(
             where='between:if operands is not None and operands != ::if variant._operand_parser is not None', locals={},
             # (a variant is constructed with the ISA's byte order as its default)
             requires=['variant._default_endian == ite("endian" in isa_model._config["general"],'
                       ' cfg_str(isa_model._config["general"]["endian"]), "big")'],
             may_raise={'SystemExit': 'True', 'KeyError': 'True'},
             ensures=[
                 # the opcode: its configured value and width, never byte-aligned, in the instruction's byte order
                 f'base_bytecode._value == cfg_int({BC}["value"])', f'base_bytecode._value_size == cfg_int({BC}["size"])',
                 'not base_bytecode._byte_align', 'base_bytecode._endian == variant_endian(variant, isa_model)',
                 # the suffix exists exactly when configured, and is emitted in the SAME byte order as the opcode
                 f'(base_bytecode_suffix is not None) == ("suffix" in {BC})',
                 f'implies(base_bytecode_suffix is not None, base_bytecode_suffix._value == cfg_int({BC}["suffix"]["value"])'
                 f' and base_bytecode_suffix._value_size == cfg_int({BC}["suffix"]["size"])'
                 ' and not base_bytecode_suffix._byte_align'
                 ' and base_bytecode_suffix._endian == variant_endian(variant, isa_model))'],
             modifies=[], allocates=True)})

EN = 'bespokeasm.assembler.model.operand.types.enumeration_operand:EnumerationOperand.parse_operand'
BD, AD = 'self._bytecode_dictionary', 'self._argument_dictionary'
contract(EN, props=['C01'], blocks_only=True, returns='ParsedOperand?',
         locals={'matched_key': 'str', 'bytecode_part': 'NumericByteCodePart?', 'arg_part': 'NumericByteCodePart?', 'match': 'match'},
         blocks={'fields': dict(
             where='between:matched_key = ::if bytecode_part is None and arg_part is None', locals={},
             # (established by __init__: a dictionary is read only from the section that exists)
             requires=[f'implies({BD} is not None, "bytecode" in self._config)',
                       f'implies({AD} is not None, "argument" in self._config)'],
             may_raise={'SystemExit': 'True', 'KeyError': 'True', 'AttributeError': 'True'},
             ensures=[
                 # a key that the byte-code dictionary lists (with a value) gets its code field -- whatever the value, 0 included
                 f'(bytecode_part is not None) == ({BD} is not None and {BD}.get(matched_key, None) is not None)',
                 f'implies(bytecode_part is not None, bytecode_part._value == cfg_int({BD}[matched_key])'
                 ' and bytecode_part._value_size == cfg_int(self._config["bytecode"]["size"])'
                 ' and not bytecode_part._byte_align and bytecode_part._endian == "big")',
                 # and a key that the argument dictionary lists gets its argument field
                 f'(arg_part is not None) == ({AD} is not None and {AD}.get(matched_key, None) is not None)',
                 f'implies(arg_part is not None, arg_part._value == cfg_int({AD}[matched_key])'
                 ' and arg_part._value_size == cfg_int(self._config["argument"]["size"]))'],
             modifies=[], allocates=True)})
