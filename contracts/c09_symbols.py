"""C09 - preprocessor symbols are substituted as whole words, in definition order (kernels of Preprocessor)."""
from pyvc.registry import contract, spec, declare_const
from . import common, c08_conditionals  # noqa

PP = 'bespokeasm.assembler.preprocessor:Preprocessor'
SYM = 'bespokeasm.assembler.preprocessor.symbol:PreprocessorSymbol'

contract(SYM + '.__init__', props=['C09'], params={'value': 'str?', 'line_id': 'LineIdentifier?'},
         ensures=['self._name == name', 'implies(value is not None, self._value == value_of(value))',
                  'implies(value is None, self._value == "")'],
         modifies=['self._name', 'self._value', 'self._line_id'])

# all three definition sources funnel through create_symbol: the table grows by exactly one key, or the call raises
contract(PP + '.create_symbol', props=['C09'], params={'value': 'str?', 'line_id': 'LineIdentifier?'},
         raises={'ValueError': 'name in self._symbols'},       # defining a symbol twice is rejected
         ensures=['name in self._symbols', 'mapping(self._symbols)[name] is result', 'result._name == name',
                  # the replacement text is the one given (a symbol defined without a value is replaced by nothing)
                  'implies(value is not None, result._value == value_of(value))', 'implies(value is None, result._value == "")',
                  'forall(lambda s: implies(s != name, (s in self._symbols) == old(s in self._symbols)), types={"s": "str"})',
                  'forall(lambda s: implies(s != name and (s in self._symbols),'
                  ' mapping(self._symbols)[s] is old(mapping(self._symbols))[s]), types={"s": "str"})'],
         modifies=['self._symbols[*]'], allocates=True)

W = 'words_of(SYMBOL_PATTERN, {})'
contract(PP + '.resolve_symbols', props=['C09', 'C14', 'C08'], params={'resolved_symbols': 'set[str]'},
         may_raise={'SystemExit': 'True'},       # a symbol whose replacement leads back to itself is rejected
         ensures=[  # repeated until no defined symbol remains: no whole word of the result is a defined symbol
             'forall(lambda w: implies(w in ' + W.format('result') + ', not (w in self._symbols)), types={"w": "str"})'],
         modifies=[], allocates=True, no_frame_check=True,
         locals={'found_symbols': 'list[str]', 'symbols_replaced': 'set[str]'},
         loops={'0': dict(idx='i', allocates=True, modifies=['symbols_replaced[*]'],
                          types={'symbol': 'PreprocessorSymbol?', 'line_str': 'str'},
                          inv=[  # every symbol seen so far that is defined has been recorded as replaced
                              'forall(lambda j: implies(0 <= j and j < i and (elems(found_symbols)[j] in self._symbols),'
                              ' elems(found_symbols)[j] in symbols_replaced))',
                              # and while nothing was replaced the line is still the one that was scanned
                              'implies(forall(lambda x: not (x in symbols_replaced), types={"x": "str"}),'
                              ' line_str == entry(line_str))',
                              'found_symbols is entry(found_symbols)', 'symbols_replaced is entry(symbols_replaced)'])})
declare_const('SYMBOL_PATTERN', 'str')


# ---- a #define line: the symbol it introduces was not defined before (a second definition is rejected, whatever its text) --
contract('bespokeasm.assembler.line_object.preprocessor_line.define_symbol:DefineSymbolLine.__init__', name='define-line',
         props=['C09'], params={'memzone': 'MemoryZone?'},
         # (group 1 -- the symbol name -- is not optional in the pattern: trusted fact about that regular expression)
         regex_facts={'DefineSymbolLine.PATTERN_DEFINE_SYMBOL': [1]},
         may_raise={'SystemExit': 'True'},
         ensures=['forall(lambda s: implies(old(s in preprocessor._symbols), self._symbol._name != s), types={"s": "str"})',
                  'self._symbol._name in preprocessor._symbols',
                  'mapping(preprocessor._symbols)[self._symbol._name] is self._symbol'],
         modifies=['preprocessor._symbols[*]'], allocates=True, no_frame_check=True)


# ---- where the substitution happens: the whole text of a non-directive line, before anything of it is parsed ---------------
contract('bespokeasm.assembler.line_object.factory:LineOjectFactory.parse_line', name='substitute-before-parsing',
         props=['C09', 'C11'], blocks_only=True,
         params={'cls': 'opaque', 'label_scope': 'LabelScope', 'current_memzone': 'MemoryZone'},
         locals={'instruction_str': 'str', 'comment_str': 'str', 'line_obj_list': 'list[LineObject]',
                 'instruction_match': 'match?'},
         # (`^([^;\v]*)(?:;.*)?$`: the one group of the instruction pattern is not optional -- trusted regex fact)
         regex_facts={'LineOjectFactory.PATTERN_INSTRUCTION_CONTENT': [1]},
         blocks={'instruction-text': dict(
             # the text that is assembled is the part of the line before the comment, as written: only the blanks
             # around it are removed (blanks inside it -- in a quoted string, say -- are content)
             where="between:instruction_str = ''::line_obj_list", locals={}, props=['C09', 'C11'], requires=[],
             may_raise={},
             ensures=['implies(instruction_match is not None,'
                      ' instruction_str == str_strip(value_of(value_of(instruction_match).group(1))))',
                      'implies(instruction_match is None, instruction_str == "")'],
             modifies=[], allocates=True),
                 'substitute': dict(
             where='between:instruction_str = ::while len(instruction_str)', locals={}, requires=[], props=['C09'],
             may_raise={'SystemExit': 'True'},
             # what is handed to the label / instruction / directive parsers contains no defined symbol as a whole word
             ensures=['forall(lambda w: implies(w in ' + W.format('instruction_str') + ', not (w in preprocessor._symbols)),'
                      ' types={"w": "str"})'],
             modifies=[], allocates=True)})


# ---- symbols predefined by the ISA configuration: every listed entry is defined, with the replacement text given ----------
ITEM = 'cfg_item(predefined_symbols, j)'
DEFINED = (f'cfg_str({ITEM}["name"]) in self._symbols and mapping(self._symbols)[cfg_str({ITEM}["name"])]._value == '
           f'ite("value" in {ITEM}, cfg_str({ITEM}["value"]), "")')
contract(PP + '.__init__', name='config-symbols', props=['C09'], params={'predefined_symbols': 'cfg'},
         may_raise={'SystemExit': 'True'},
         ensures=[f'forall(lambda j: implies(0 <= j and j < cfg_len(predefined_symbols), {DEFINED}))'],
         modifies=['self._symbols'], allocates=True, no_frame_check=True,
         loops={'0': dict(idx='i', allocates=True, modifies=['self._symbols[*]'],
                          inv=['i <= cfg_len(predefined_symbols)', 'fresh(self._symbols)',
                               f'forall(lambda j: implies(0 <= j and j < i, {DEFINED}))'])})


# ---- symbols given on the command line: defined through create_symbol like all others, so an existing definition is never
# replaced (a name given twice, or given in the configuration as well, is rejected there)
KEPT = ('forall(lambda s: implies(old(s in self._symbols), (s in self._symbols)'
        ' and mapping(self._symbols)[s] is old(mapping(self._symbols))[s]), types={"s": "str"})')
contract(PP + '.add_cli_symbols', name='cli-symbols', props=['C09'], params={'cli_symbols': 'list[str]'},
         may_raise={'ValueError': 'True'},
         ensures=[KEPT], modifies=['self._symbols[*]'], allocates=True,
         loops={'0': dict(idx='i', allocates=True, modifies=['self._symbols[*]'], inv=[KEPT])})
