"""C06 - label scopes: a reference resolves only within its lexical scope (kernels: LabelScope)."""
from pyvc.registry import contract, spec, declare_const
from . import common  # noqa

LS = 'bespokeasm.assembler.label_scope:'
declare_const('ASSEMBLER_KEYWORD_SET', 'mset[str]')   # the keyword set itself is data; only membership is used

# scope kinds: GLOBAL = 0, FILE = 1, LOCAL = 2  (LabelScopeType values)


@spec
def kind_of(label):
    """LOCAL for a leading '.', FILE for a leading '_', GLOBAL otherwise (from the property statement)"""
    if label.startswith('.'):
        return 2
    if label.startswith('_'):
        return 1
    return 0


@spec
def node_ok(s):
    return (0 <= s._type.value and s._type.value <= 2
            and implies(isa(s, 'GlobalLabelScope'), s._type.value == 0)
            and (s._parent is None) == (s._type.value == 0))


@spec
def scope_wf(s):
    """a scope chain is LOCAL -> FILE -> GLOBAL, FILE -> GLOBAL or GLOBAL: kinds strictly decrease towards the root"""
    return (node_ok(s)
            and implies(s._parent is not None,
                        node_ok(s._parent) and s._parent._type.value < s._type.value
                        and implies(s._parent._parent is not None,
                                    node_ok(s._parent._parent) and s._parent._parent._type.value < s._parent._type.value
                                    and s._parent._parent._parent is None)))


@spec
def has(s, label):
    return label in s._labels


@spec
def val(s, label):
    return mapping(s._labels)[label]._value


@spec
def lookup_found(s, label):
    """some table on the chain from s to the root defines the label"""
    return (has(s, label)
            or (s._parent is not None and (has(s._parent, label)
                                           or (s._parent._parent is not None and has(s._parent._parent, label)))))


@spec
def lookup(s, label):
    """the value in the first table on the chain that defines the label"""
    if has(s, label):
        return val(s, label)
    if has(s._parent, label):
        return val(s._parent, label)
    return val(s._parent._parent, label)


@spec
def root_of(s):
    if s._parent is None:
        return s
    if s._parent._parent is None:
        return s._parent
    return s._parent._parent


@spec
def reg_hit(s, label):
    """the chain's root is a global scope that knows the label as a register name"""
    return isa(root_of(s), 'GlobalLabelScope') and label in root_of(s)._register_labels


@spec
def reaches_root(s, label):
    """no scope below the root on the chain from s defines the label, so the lookup consults the root"""
    if s._parent is None:
        return True
    if has(s, label):
        return False
    if s._parent._parent is None:
        return True
    if has(s._parent, label):
        return False
    return True


GLV = dict(props=['C06'], returns='int?', requires=['scope_wf(self)'],
           # rejected rather than given a value: a register name used as a label (when the lookup reaches the root)
           raises={'SystemExit': 'reaches_root(self, label) and reg_hit(self, label)'},
           ensures=['implies(lookup_found(self, label), result is not None and value_of(result) == lookup(self, label))',
                    'implies(not lookup_found(self, label), result is None)'],
           modifies=[], decreases='self._type.value')
contract(LS + 'LabelScope.get_label_value', name='abs:LabelScope.get_label_value', covers_overrides=True, **GLV)
contract(LS + 'GlobalLabelScope.get_label_value', name='abs:GlobalLabelScope.get_label_value', **GLV)


@spec
def target(s, k):
    """the scope of kind k on the chain from s (the table a definition of that kind goes into)"""
    if s._type.value == k:
        return s
    if s._parent._type.value == k:
        return s._parent
    return s._parent._parent


@spec
def has_kind(s, k):
    """some scope on the chain from s has kind k"""
    return (s._type.value == k
            or (s._parent is not None and (s._parent._type.value == k
                                           or (s._parent._parent is not None and s._parent._parent._type.value == k))))


@spec
def base_label(label, k):
    """the label without its scope prefix"""
    if k == 0:
        return label
    return label[1:len(label)]


@spec
def eff_kind(label, scope):
    if scope is not None:
        return value_of(scope).value
    return kind_of(label)


SLV = dict(props=['C06', 'C02'], params={'scope': 'LabelScopeType?'},
           # an explicit kind is only ever passed for the scope that stores it (predefined names on the global scope)
           requires=['scope_wf(self)', 'scope is None or value_of(scope).value >= self._type.value'],
           raises={'SystemExit':
                   # keyword, no scope of that kind at or above this line, or already defined in that scope
                   'base_label(label, eff_kind(label, scope)) in ASSEMBLER_KEYWORD_SET'
                   ' or not has_kind(self, eff_kind(label, scope))'
                   ' or has(target(self, eff_kind(label, scope)), label)'},
           ensures=[  # exactly one table -- the one of the label's kind on the chain -- gains exactly that key
               'has(target(self, eff_kind(label, scope)), label)',
               'val(target(self, eff_kind(label, scope)), label) == value',
               'forall(lambda l2: implies(l2 != label, has(target(self, eff_kind(label, scope)), l2) == '
               'old(has(target(self, eff_kind(label, scope)), l2))), types={"l2": "str"})',
               'scope_wf(self)'],
           modifies=['target(self, eff_kind(label, scope))._labels[*]'], allocates=True,
           decreases='self._type.value')
contract(LS + 'LabelScope.set_label_value', **SLV)

contract(LS + 'LabelScopeType.get_label_scope', props=['C06'],
         ensures=['result.value == kind_of(label)'], modifies=[])
