"""C12 - configured operand value constraints are enforced, not silently bypassed."""
from pyvc.registry import contract, spec
from . import common, abstract_expr  # noqa

P = 'bespokeasm.assembler.bytecode.parts:'
XV = 'xval(self._parsed_expression, label_scope)'
XF = 'xfails(self._parsed_expression, label_scope)'
GV = dict(params={'label_scope': 'LabelScope?', 'instruction_address': 'int?', 'instruction_size': 'int'})

# (C14 reads only `ensures`: the value handed to the width check of append_bits is the operand's real value -- a part that
#  folds an out-of-range value into range defeats "a value its field cannot hold is rejected"; the min/max/zone exits are C12's)
C14_ENSURES = {'C14': ['ensures[']}
# the unconstrained expression part: value of the operand text
contract(P + 'ExpressionByteCodePart.get_value', props=['C12', 'C01', 'C14'], name='C12:ExpressionByteCodePart.get_value',
         only_for=C14_ENSURES, raises={'SystemExit': XF}, ensures=[f'result == {XV}'], modifies=[], **GV)

# min / max  (bit-index style operands)
contract(P + 'ExpressionByteCodePartWithValidation.get_value', props=['C12', 'C14'], only_for=C14_ENSURES,
         raises={'SystemExit': f'{XF} or (self._max is not None and {XV} > self._max)'
                               f' or (self._min is not None and {XV} < self._min)'},
         ensures=[f'result == {XV}'], modifies=[], **GV)

# inside a memory zone (address operands and operands flagged valid_address)
contract(P + 'ExpressionByteCodePartInMemoryZone.get_value', props=['C12', 'C14'], only_for=C14_ENSURES,
         raises={'SystemExit': f'{XF} or (self._memzone is not None and '
                               f'({XV} > self._memzone._end or {XV} < self._memzone._start))'},
         ensures=[f'result == {XV}'], modifies=[], **GV)

# numeric enumeration: membership, mapped value
contract(P + 'ExpressionEnumerationByteCodePart.get_value', props=['C12'],
         raises={'SystemExit': f'{XF} or not ({XV} in self._value_dict)'},
         ensures=[f'result == mapping(self._value_dict)[{XV}]'], modifies=[], **GV)

# relative offsets: measured from the instruction address, or from its last byte when so configured
R = 'bespokeasm.assembler.model.operand.types.relative_address:RelativeAddressByteCodePart.get_value'


@spec
def rel_offset(part, target, instruction_address, instruction_size):
    if part._offset_from_instruction_end:
        return target - (instruction_address + instruction_size - 1)
    return target - instruction_address


INZONE = f'(self._memzone is not None and ({XV} > self._memzone._end or {XV} < self._memzone._start))'
OFF = f'rel_offset(self, {XV}, value_of(instruction_address), instruction_size)'
contract(R, props=['C12', 'C14'], only_for=C14_ENSURES,      # (C14's "value its field cannot hold" is the width check of PackedBits.append_bits)
         raises={'ValueError': 'instruction_address is None',
                 'SystemExit': f'instruction_address is not None and ({XF} or {INZONE}'
                               f' or (self._max_relative_value is not None and {OFF} > self._max_relative_value)'
                               f' or (self._min_relative_value is not None and {OFF} < self._min_relative_value))'},
         ensures=[f'result == {OFF}'], modifies=[], **GV)

# sliced addresses: low bits emitted, high bits must equal the instruction's
A = 'bespokeasm.assembler.model.operand.types.address:AddressByteCodePart.get_value'
SL = '(self._is_lsb_bytes and self._match_address_msb)'
contract(A, props=['C12'],
         requires=['self._value_size >= 0'],
         raises={'ValueError': f'instruction_address is None or (not {XF} and not {INZONE} and {SL} and '
                               f'value_of(instruction_address) // 2**self._value_size != {XV} // 2**self._value_size)',
                 'SystemExit': f'instruction_address is not None and ({XF} or {INZONE})'},
         ensures=[f'implies({SL}, result == {XV} % 2**self._value_size)',
                  f'implies(not {SL}, result == {XV})'],
         modifies=[], **GV)

# ---- the configured min / max of a numeric-bytecode operand reach the part that enforces them -----------------------------
PV = P + 'ExpressionByteCodePartWithValidation.__init__'
contract(PV, props=['C12'], may_raise={'SystemExit': 'True', 'SyntaxError': 'True'},
         ensures=['self._max == max_value', 'self._min == min_value', 'self._value_size == value_size',
                  'self._byte_align == byte_align', 'self._endian == endian'],
         modifies=[], allocates=True, no_frame_check=True)
NBO = 'bespokeasm.assembler.model.operand.types.numeric_bytecode:NumericBytecode.parse_operand'
contract(NBO, props=['C12', 'C01'], returns='ParsedOperand?',
         requires=['"bytecode" in self._config'],
         may_raise={'SystemExit': 'True', 'SyntaxError': 'True', 'KeyError': 'True'},
         ensures=['implies(result is not None, result._argument is None and result._bytecode is not None'
                  ' and isa(value_of(result._bytecode), "ExpressionByteCodePartWithValidation"))',
                  'implies(result is not None, value_of(result._bytecode)._max == some(cfg_int(self._config["bytecode"]["max"]))'
                  ' and value_of(result._bytecode)._min == some(cfg_int(self._config["bytecode"]["min"])))',
                  'implies(result is not None, value_of(result._bytecode)._value_size == cfg_int(self._config["bytecode"]["size"])'
                  ' and not value_of(result._bytecode)._byte_align)'],
         modifies=[], allocates=True, no_frame_check=True)
