"""C15 - determinism: the one loop over a set on the compile path whose result could depend on iteration order.

Iteration over a set is executed over an ARBITRARY enumeration of its members; the postcondition below does not mention
the enumeration, so the result is the same for every hash seed and every order of -I options."""
from pyvc.registry import contract, spec, declare_fields
from . import common  # noqa

declare_fields('AssemblyFile', _filename='str', _label_scope='LabelScope')

LOC = 'bespokeasm.assembler.assembly_file:AssemblyFile._locate_filename'


@spec
def cand(d, filename):
    return path_join(d, filename)


contract(LOC, props=['C15', 'C17'],
         params={'include_paths': 'set[str]'},
         may_raise={'SystemExit': 'True'},
         ensures=[
             'path_exists(result)',
             # EVERY search directory that contains the file yields this very path: the answer is unique,
             # hence independent of the order in which the directories are visited
             'forall(lambda d: implies(d in include_paths and path_exists(cand(d, filename)), result == cand(d, filename)),'
             ' types={"d": "str"})'],
         modifies=[], allocates=True, locals={'filepath': 'str?'},
         loops={'0': dict(idx='i', seq='order', types={'filepath': 'str?'}, inv=[
             'implies(filepath is not None, path_exists(value_of(filepath)))',
             'forall(lambda j: implies(0 <= j and j < i and path_exists(cand(elems(order)[j], filename)),'
             ' filepath is not None and value_of(filepath) == cand(elems(order)[j], filename)))'])})
