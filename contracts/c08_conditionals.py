"""C08 - conditional assembly selects exactly the lines of the taken branches (condition stack kernels).

Reference machine (from the statement): one frame per open conditional chain holding
    selected  - the chain's current branch was selected when its directive was reached
    taken     - some branch of the chain has been selected so far
A branch is selected iff every enclosing frame is selected, no earlier branch of its chain was taken, and its own
condition held AT THE MOMENT ITS DIRECTIVE WAS REACHED; a line is active iff every frame is selected."""
from pyvc.registry import contract, spec
from . import common  # noqa

CS = 'bespokeasm.assembler.preprocessor.condition_stack:ConditionStack'
PC = 'bespokeasm.assembler.preprocessor.condition:'


@spec(uninterpreted=True, sig=['IfPreprocessorCondition', 'Preprocessor', 'bool'],
      heap_reads=['Preprocessor._symbols', 'dict[str,PreprocessorSymbol]', 'PreprocessorSymbol._value',
                  'IfPreprocessorCondition._lhs_expression', 'IfPreprocessorCondition._operator',
                  'IfPreprocessorCondition._rhs_expression'])
def comparison_holds(c, pp):
    """the #if / #elif comparison holds for the symbols defined now (abstract: symbol resolution + expression parsing)"""


contract(PC + 'IfPreprocessorCondition._evaluate_condition', props=['C08'], assumed=True,
         reason='resolves symbols, parses both sides and compares (regex / parser based); deterministic in the symbol table',
         may_raise={'SystemExit': 'True', 'ValueError': 'True', 'SyntaxError': 'True'},
         ensures=['result == comparison_holds(self, preprocessor)'], modifies=[], no_frame_check=True)

contract('bespokeasm.assembler.preprocessor:Preprocessor.get_symbol', props=['C08', 'C09'], returns='PreprocessorSymbol?',
         ensures=['(result is not None) == (name in self._symbols)',
                  'implies(result is not None, result is mapping(self._symbols)[name])'], modifies=[])

# #ifdef / #ifndef test only whether the symbol is defined at that point
contract(PC + 'IfdefPreprocessorCondition.evaluate', props=['C08'],
         ensures=['result == ((self._symbol in preprocessor._symbols) != self._is_ifndef)'], modifies=[])
contract(PC + 'IfPreprocessorCondition.evaluate', props=['C08'],
         may_raise={'SystemExit': 'True', 'ValueError': 'True', 'SyntaxError': 'True'},
         ensures=['result == comparison_holds(self, preprocessor)'], modifies=[])


@spec
def holds_now(c, pp):
    """the branch's own condition at the moment its directive is reached"""
    if isa(c, 'ElsePreprocessorCondition'):
        return True
    if isa(c, 'IfdefPreprocessorCondition'):
        return (c._symbol in pp._symbols) != c._is_ifndef
    if isa(c, 'IfPreprocessorCondition'):
        return comparison_holds(c, pp)
    return True


@spec
def cs_wf(cs):
    return (len(cs._stack) == len(cs._selected) and len(cs._selected) == len(cs._taken)
            and not (cs._selected is cs._taken) and cs._mute_counter >= 0
            and forall(lambda j: implies(0 <= j and j < len(cs._stack), elems(cs._stack)[j] is not None)))


@spec
def all_selected(cs, n):
    """every one of the first n frames has its current branch selected"""
    return forall(lambda j: implies(0 <= j and j < n, elems(cs._selected)[j]))


N = 'len(self._selected)'
FRAME_KEEP = ('forall(lambda j: implies(0 <= j and j < {n}, elems(self._selected)[j] == old(elems(self._selected))[j]'
              ' and elems(self._taken)[j] == old(elems(self._taken))[j] and elems(self._stack)[j] is old(elems(self._stack))[j]))')

contract(CS + '.currently_active', props=['C08'], requires=['cs_wf(self)'],
         ensures=[f'result == all_selected(self, {N})'], modifies=[])
contract(CS + '.is_muted', props=['C08'], ensures=['result == (self._mute_counter > 0)'], modifies=[])

contract(CS + '._push', props=['C08'], requires=['cs_wf(self)'],
         may_raise={'SystemExit': 'True', 'ValueError': 'True', 'SyntaxError': 'True', 'NotImplementedError': 'True'},
         ensures=['cs_wf(self)', f'{N} == old({N}) + 1',
                  # selected iff every enclosing frame is selected, no earlier branch of the chain was, and the condition holds now
                  f'elems(self._selected)[old({N})] == (old(all_selected(self, {N})) and not already_taken'
                  ' and holds_now(condition, preprocessor))',
                  f'elems(self._taken)[old({N})] == (already_taken or elems(self._selected)[old({N})])',
                  f'elems(self._stack)[old({N})] is condition',
                  FRAME_KEEP.format(n=f'old({N})')],
         modifies=['self._stack[*]', 'self._selected[*]', 'self._taken[*]'])

IS_DEP = '(isa(condition, "ElifPreprocessorCondition") or isa(condition, "ElsePreprocessorCondition"))'
IS_END = 'isa(condition, "EndifPreprocessorCondition")'
IS_MUTE = 'isa(condition, "MutePreprocessorCondition")'
IS_UNMUTE = 'isa(condition, "UnmutePreprocessorCondition")'
IS_OPEN = '(not {} and not {} and not {} and not {})'.format(IS_DEP, IS_END, IS_MUTE, IS_UNMUTE)

contract(CS + '.process_condition', props=['C08', 'C03', 'C16'], requires=['cs_wf(self)'],
         # an #else, #elif or #endif without a matching opener is rejected (IndexError is turned into an exit by the caller);
         # an #else / #elif after an #else is rejected (ValueError)
         raises={'IndexError': f'({IS_DEP} or {IS_END}) and {N} == 0'},
         may_raise={'SystemExit': 'True', 'ValueError': 'True', 'SyntaxError': 'True', 'NotImplementedError': 'True'},
         ensures=['cs_wf(self)',
                  # #endif closes the innermost chain
                  f'implies({IS_END}, {N} == old({N}) - 1 and ' + FRAME_KEEP.format(n=N) + ')',
                  # an opening directive pushes a frame: selected iff all enclosing frames are and its condition holds now
                  f'implies({IS_OPEN}, {N} == old({N}) + 1 and ' + FRAME_KEEP.format(n=f'old({N})')
                  + f' and elems(self._selected)[old({N})] == (old(all_selected(self, {N})) and holds_now(condition, preprocessor))'
                  + f' and elems(self._taken)[old({N})] == elems(self._selected)[old({N})])',
                  # #elif / #else replace the innermost frame: selected iff the enclosing frames are, no earlier branch of
                  # this chain was taken, and (for #elif) its condition holds now
                  f'implies({IS_DEP}, {N} == old({N}) and ' + FRAME_KEEP.format(n=f'{N} - 1')
                  + f' and elems(self._selected)[{N} - 1] == (old(all_selected(self, {N} - 1)) and not old(elems(self._taken))[{N} - 1]'
                  + ' and holds_now(condition, preprocessor))'
                  + f' and elems(self._taken)[{N} - 1] == (old(elems(self._taken))[{N} - 1] or elems(self._selected)[{N} - 1]))',
                  # mute / unmute change the mute depth only in an active region, and never touch the frames
                  f'implies({IS_MUTE}, self._mute_counter == old(self._mute_counter) + ite(old(all_selected(self, {N})), 1, 0))',
                  f'implies({IS_UNMUTE}, self._mute_counter == old(self._mute_counter)'
                  f' - ite(old(all_selected(self, {N})) and old(self._mute_counter) > 0, 1, 0))',
                  f'implies({IS_MUTE} or {IS_UNMUTE}, {N} == old({N}) and ' + FRAME_KEEP.format(n=N) + ')',
                  f'implies(not {IS_MUTE} and not {IS_UNMUTE}, self._mute_counter == old(self._mute_counter))'],
         modifies=['self._stack[*]', 'self._selected[*]', 'self._taken[*]', 'self._mute_counter', 'condition._parent'])

# ---- which directive may continue which chain ------------------------------------------------------------------
CSP = dict(props=['C08'], params={'parent': 'PreprocessorCondition?'})
contract(PC + 'ElifPreprocessorCondition._check_and_set_parent',
         raises={'ValueError': 'not (isa(parent, "IfPreprocessorCondition") or isa(parent, "IfdefPreprocessorCondition"))'},
         ensures=['self._parent is parent'], modifies=['self._parent'], **CSP)
contract(PC + 'ElsePreprocessorCondition._check_and_set_parent',
         raises={'ValueError': 'isa(parent, "ElsePreprocessorCondition") or isa(parent, "EndifPreprocessorCondition")'},
         ensures=['self._parent is parent'], modifies=['self._parent'], **CSP)
contract(PC + 'IfPreprocessorCondition._check_and_set_parent', raises={'ValueError': 'True'}, modifies=[], **CSP)
contract(PC + 'IfdefPreprocessorCondition._check_and_set_parent', raises={'ValueError': 'True'}, modifies=[], **CSP)

# ---- directives in a branch that is not being compiled have no effect ------------------------------------------------
PLF = 'bespokeasm.assembler.line_object.preprocessor_line.factory:PreprocessorLineFactory.parse_line'
LINE_CTOR = dict(props=['C08'], assumed=True, no_frame_check=True, allocates=True,
                 may_raise={'SystemExit': 'True', 'ValueError': 'True', 'KeyError': 'True'},
                 reason='constructs the directive line (regex parsing of the directive text); its effects are listed in modifies')
PL = 'bespokeasm.assembler.line_object.preprocessor_line.'
contract(PL + 'required_language:RequiredLanguageLine.__init__', modifies=[], **LINE_CTOR)
contract(PL + 'create_memzone:CreateMemzoneLine.__init__', name='abs:CreateMemzoneLine.__init__',
         modifies=['memzone_manager._zones[*]'], **LINE_CTOR)
contract(PL + 'define_symbol:DefineSymbolLine.__init__', name='abs:DefineSymbolLine.__init__',
         modifies=['preprocessor._symbols[*]'], **LINE_CTOR)
contract(PL + 'condition_line:ConditionLine.__init__',
         modifies=['condition_stack._stack[*]', 'condition_stack._selected[*]', 'condition_stack._taken[*]',
                   'condition_stack._mute_counter'], **LINE_CTOR)
contract('bespokeasm.assembler.line_object:LineObject.__init__', props=['C08'],
         ensures=['self._memzone is memzone', 'self._address is None', 'self._compilable', 'not self._is_muted'],
         modifies=['self._line_id', 'self._instruction', 'self._comment', 'self._address', 'self._label_scope',
                   'self._memzone', 'self._compilable', 'self._is_muted'])

declare_const_note = None
COND_PREFIX = ('(instruction.startswith("#if ") or instruction.startswith("#ifdef ") or instruction.startswith("#ifndef ")'
               ' or instruction.startswith("#elif ") or instruction.startswith("#else") or instruction.startswith("#endif")'
               ' or instruction.startswith("#mute") or instruction.startswith("#emit") or instruction.startswith("#unmute"))')
INERT = f'(not instruction.startswith("#require ") and not {COND_PREFIX} and not all_selected(condition_stack, len(condition_stack._selected)))'
contract(PLF, props=['C08'],
         requires=['cs_wf(condition_stack)'],
         may_raise={'SystemExit': 'True', 'ValueError': 'True', 'KeyError': 'True'},
         ensures=[  # in an unselected branch a non-conditional directive defines no symbol and no zone
             f'implies({INERT}, forall(lambda s: (s in preprocessor._symbols) == old(s in preprocessor._symbols), types={{"s": "str"}}))',
             f'implies({INERT}, forall(lambda z: (z in memzone_manager._zones) == old(z in memzone_manager._zones), types={{"z": "str"}}))',
             f'implies({INERT}, len(result) == 1 and typeis(elems(result)[0], "PreprocessorLine"))'],
         modifies=['preprocessor._symbols[*]', 'memzone_manager._zones[*]', 'condition_stack._stack[*]',
                   'condition_stack._selected[*]', 'condition_stack._taken[*]', 'condition_stack._mute_counter'],
         allocates=True, no_frame_check=True)
