"""Abstract view of a line object, shared by the engine blocks (C02, C03, C04, C05, C14, C16).

`line_size(l)` and `line_addr(l)` are spec functions defined by case analysis on the dynamic class; the SAME contract
text is registered on the base method and on every override, so each override is verified against exactly the
contract that dynamic dispatch uses (behavioural subtyping by construction)."""
from pyvc.registry import contract, spec
from . import common, abstract_expr, c02_lines, c05_memzone  # noqa

LO = 'bespokeasm.assembler.line_object'


@spec
def data_width(directive):
    """bytes per value of a data directive"""
    if directive == '.2byte':
        return 2
    if directive == '.4byte':
        return 4
    if directive == '.8byte':
        return 8
    return 1


@spec
def data_directive_ok(directive):
    return (directive == '.byte' or directive == '.2byte' or directive == '.4byte' or directive == '.8byte'
            or directive == '.cstr' or directive == '.asciiz')


@spec
def line_size(l):
    """the number of bytes reserved for (and finally emitted by) a line"""
    if isa(l, 'FillDataLine'):
        return fill_count(l)
    if isa(l, 'FillUntilDataLine'):
        return until_size(l)
    if isa(l, 'PredefinedDataLine'):
        return l._byte_length
    if isa(l, 'EmbeddedString'):
        return len(l._string_bytes)
    if isa(l, 'DataLine'):
        return len(l._arg_value_list) * data_width(l._directive)
    if isa(l, 'InstructionLine'):
        return l._assembled_instruction._byte_size
    return 0


@spec
def size_fails(l):
    """evaluating the size exits (unresolvable or negative count, ...)"""
    if isa(l, 'FillDataLine'):
        return l._count is None and (xfails(l._count_expr, l._label_scope) or xval(l._count_expr, l._label_scope) < 0)
    if isa(l, 'FillUntilDataLine'):
        return l._fill_until_addr is None and xfails(l._fill_until_addr_expr, l._label_scope)
    return False


@spec
def line_wf(l):
    """well-formedness established when the line was parsed (class invariants)"""
    return (implies(isa(l, 'FillDataLine'), l._count is None or value_of(l._count) >= 0)
            and implies(isa(l, 'PredefinedDataLine'), l._byte_length >= 0)
            and implies(isa(l, 'DataLine'), data_directive_ok(l._directive))
            and implies(isa(l, 'InstructionLine'), l._assembled_instruction._byte_size >= 0))


SIZE = dict(props=['C02', 'C03', 'C04', 'C05', 'C14'], name=None,
            requires=['line_wf(self)', 'implies(isa(self, "FillUntilDataLine"), self._address is not None)'],
            raises={'SystemExit': 'size_fails(self)'},
            ensures=['result == old(line_size(self))', 'line_size(self) == old(line_size(self))', 'result >= 0',
                     'line_wf(self)', 'not size_fails(self)'],
            modifies=['self._count', 'self._fill_until_addr'])

BYTE_SIZE_IMPLS = [
    (LO + ':LineObject.byte_size', True),
    (LO + '.directive_line.fill_data:FillDataLine.byte_size', False),
    (LO + '.directive_line.fill_data:FillUntilDataLine.byte_size', False),
    (LO + '.predefined_data:PredefinedDataLine.byte_size', False),
    (LO + '.emdedded_string:EmbeddedString.byte_size', False),
    (LO + '.data_line:DataLine.byte_size', False),
    (LO + '.instruction_line:InstructionLine.byte_size', False),
]
for key, base in BYTE_SIZE_IMPLS:
    kw = dict(SIZE)
    kw['name'] = 'abs:' + key.split(':')[1]
    contract(key, covers_overrides=base, **kw)


# ---- address of a line ------------------------------------------------------------------------------------
@spec
def org_value(l):
    """a bare .org is absolute; an origin given relative to a zone is offset from that zone's start"""
    if l._parsed_memzone_name is None:
        return xval(l._address_expr, l._label_scope)
    return l._memzone._start + xval(l._address_expr, l._label_scope)


@spec
def gzone(l):
    return mapping(l._memzone_manager._zones)['GLOBAL']


@spec
def org_fails(l):
    return (xfails(l._address_expr, l._label_scope) or org_value(l) < gzone(l)._start or org_value(l) > gzone(l)._end)


@spec
def line_addr(l):
    """the address of a line (None before placement); an origin line's address is its origin value"""
    if isa(l, 'AddressOrgLine'):
        return some(org_value(l))
    return l._address


ADDR = dict(props=['C02', 'C03', 'C04', 'C05', 'C16'], returns='int?',
            requires=['implies(isa(self, "AddressOrgLine"), "GLOBAL" in self._memzone_manager._zones)'],
            raises={'SystemExit': 'isa(self, "AddressOrgLine") and org_fails(self)'},
            ensures=['result == line_addr(self)'], modifies=[])
contract(LO + ':LineObject.address', name='abs:LineObject.address', covers_overrides=True, **ADDR)
contract(LO + '.directive_line.address:AddressOrgLine.address', name='abs:AddressOrgLine.address', **ADDR)


@spec
def page_fails(l):
    return typeis_union_ref(l._page_size) and xfails(union_ref(l._page_size), l._label_scope)


@spec
def place_wf(l):
    """what placement needs of an .align line: its page size is a positive number or an expression of positive value"""
    return implies(isa(l, 'PageAlignLine'),
                   implies(not typeis_union_ref(l._page_size), union_is_int(l._page_size))
                   and page_of(l, l._label_scope) >= 1)


SSA = dict(props=['C02', 'C05'], params={'address': 'int'},
           requires=['place_wf(self)', 'address >= 0'],
           raises={'SystemExit': 'isa(self, "PageAlignLine") and page_fails(self)'},
           ensures=[
               # an origin line keeps its origin value
               'implies(isa(self, "AddressOrgLine"), line_addr(self) == old(line_addr(self)))',
               # an alignment moves to the smallest multiple of the page size that is not below the current address
               'implies(isa(self, "PageAlignLine"), self._address is not None'
               ' and value_of(self._address) % old(page_of(self, self._label_scope)) == 0'
               ' and value_of(self._address) >= address'
               ' and value_of(self._address) - address < old(page_of(self, self._label_scope)))',
               # every other line is placed at the current address
               'implies(not isa(self, "AddressOrgLine") and not isa(self, "PageAlignLine"),'
               ' self._address is not None and value_of(self._address) == address)'],
           modifies=['self._address', 'self._page_size'])
contract(LO + ':LineObject.set_start_address', name='abs:LineObject.set_start_address', covers_overrides=True, **SSA)
contract(LO + '.directive_line.address:AddressOrgLine.set_start_address', name='abs:AddressOrgLine.set_start_address', **SSA)
contract(LO + '.directive_line.page_align:PageAlignLine.set_start_address', name='abs:PageAlignLine.set_start_address', **SSA)

# ---- byte generation: emitted == reserved ------------------------------------------------------------------
GEN = dict(props=['C02', 'C04', 'C03', 'C11'],
           requires=['line_wf(self)', 'len(self._bytes) == 0',
                     'implies(isa(self, "FillUntilDataLine"), self._address is not None)'],
           may_raise={'SystemExit': 'True', 'ValueError': 'True'},
           ensures=['len(self._bytes) == line_size(self)',         # the bytes finally emitted equal the space reserved
                    'line_size(self) == old(line_size(self))', 'self._bytes is old(self._bytes)', 'line_wf(self)',
                    'not size_fails(self)'],
           modifies=['self._count', 'self._value', 'self._fill_until_addr', 'self._fill_value', 'self._bytes[*]'],
           allocates=True)
GEN_IMPLS = [
    (LO + ':LineWithBytes.generate_bytes', True, False),
    (LO + '.directive_line.fill_data:FillDataLine.generate_bytes', False, False),
    (LO + '.directive_line.fill_data:FillUntilDataLine.generate_bytes', False, False),
    (LO + '.predefined_data:PredefinedDataLine.generate_bytes', False, False),
    (LO + '.emdedded_string:EmbeddedString.generate_bytes', False, False),
    (LO + '.data_line:DataLine.generate_bytes', False, False),
    (LO + '.instruction_line:InstructionLine.generate_bytes', False, False),
]
for key, base, assumed in GEN_IMPLS:
    kw = dict(GEN)
    if base:
        kw['may_raise'] = dict(GEN['may_raise'], NotImplementedError='True')
    if key.endswith('.data_line:DataLine.generate_bytes'):
        # emitted == reserved for data lines: width bytes per listed value (the byte values are C11's contract)
        DW = 'data_width(self._directive)'
        kw['may_raise'] = dict(GEN['may_raise'], SyntaxError='True')
        kw['requires'] = list(GEN['requires']) + ['self._arg_value_list is not self._bytes',
                                                  'self._endian == "big" or self._endian == "little"',
                                                  'forall(lambda j: implies(0 <= j and j < len(self._arg_value_list),'
                                                  ' union_is_int(elems(self._arg_value_list)[j])'
                                                  ' or union_is_str(elems(self._arg_value_list)[j])))']
        kw['cases'] = {'self._directive': ['.byte', '.2byte', '.4byte', '.8byte', '.cstr', '.asciiz']}
        kw['locals'] = {'value_bytes': 'bytes', 'arg_val': 'int'}
        kw['loops'] = {'0': dict(idx='i', allocates=True, modifies=['self._bytes[*]'],
                                 inv=['i <= len(self._arg_value_list)', f'len(self._bytes) == {DW} * i',
                                      'self._bytes is old(self._bytes)']),
                       '0.0': dict(idx='m', modifies=['self._bytes[*]'],
                                   inv=['m <= len(value_bytes)', f'len(self._bytes) == {DW} * i + m',
                                        'self._bytes is old(self._bytes)'])}
    if key.endswith('InstructionLine.generate_bytes'):
        # (a macro whose step yields no bytes makes get_bytes return None, and extend(None) raises)
        kw['may_raise'] = dict(GEN['may_raise'], TypeError='True')
        kw['returns'] = 'None'      # (annotated `-> bytearray`, returns nothing)
    contract(key, name='abs:' + key.split(':')[1], covers_overrides=base, assumed=assumed,
             reason='emitted == reserved for this line class is not yet verified (regex / nested instruction parts)'
             if assumed else '', **kw)
