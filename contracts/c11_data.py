"""C11 - data directives and strings emit exactly the bytes they describe."""
from pyvc.registry import contract, spec, lemma
from . import common, abstract_expr, c01_packed_bits, c02_lines_abs, c02_lines  # noqa
from .abstract_expr import XREADS

LO = 'bespokeasm.assembler.line_object'
DL = LO + '.data_line:DataLine'
ES = LO + '.emdedded_string:EmbeddedString'
LABEL_READS = [r for r in XREADS if not r.startswith('ExpressionNode.')]


@spec(uninterpreted=True, sig=['str', 'LabelScope?', 'int'], heap_reads=LABEL_READS)
def text_value(text, scope):
    """value of an expression given as text, in a scope (abstract: parsing is C07's bounded stand-in, evaluation C07)"""


@spec(uninterpreted=True, sig=['str', 'LabelScope?', 'bool'], heap_reads=LABEL_READS)
def text_fails(text, scope):
    """evaluating the expression text exits"""


contract('bespokeasm.expression:parse_expression', props=['C11'], assumed=True,
         reason='the parser is outside the verified subset (bounded stand-in under C07); here: a fresh tree whose '
                'value and failure in any scope are functions of the text and the label tables',
         returns='ExpressionNode', may_raise={'SystemExit': 'True', 'SyntaxError': 'True'},
         ensures=['fresh(result)',
                  'forall(lambda s: xval(result, s) == text_value(expression, s)'
                  ' and xfails(result, s) == text_fails(expression, s), types={"s": "LabelScope?"})'],
         modifies=[], allocates=True, no_frame_check=True)


@spec
def dwidth(d):
    """bytes per value of a data directive"""
    if d == '.2byte':
        return 2
    if d == '.4byte':
        return 4
    if d == '.8byte':
        return 8
    return 1


@spec
def item_value(l, j):
    """the j-th listed value: a number as written (a character code for strings) or the value of an expression"""
    if union_is_int(elems(l._arg_value_list)[j]):
        return union_int(elems(l._arg_value_list)[j])
    return text_value(union_str(elems(l._arg_value_list)[j]), l._label_scope)


ITEMS_OK = ('forall(lambda j: implies(0 <= j and j < len(self._arg_value_list), union_is_int(elems(self._arg_value_list)[j])'
            ' or union_is_str(elems(self._arg_value_list)[j])))')
W = 'dwidth(self._directive)'
# byte k of the line belongs to value k // width and is byte k % width of it in the configured order
BYTE_AT = ('elems(self._bytes)[k] == ((item_value(self, k // {w}) % 2 ** (8 * {w}))'
           ' // 2 ** (8 * ite(self._endian == "little", k % {w}, {w} - 1 - k % {w}))) % 256').format(w=W)
DONE = 'forall(lambda k: implies(0 <= k and k < ' + W + ' * {n}, ' + BYTE_AT + '))'

contract(DL + '.generate_bytes', props=['C11', 'C02', 'C07', 'C14'],
         requires=['data_directive_ok(self._directive)', 'len(self._bytes) == 0', ITEMS_OK,
                   'self._endian == "big" or self._endian == "little"',
                   'self._arg_value_list is not self._bytes'],
         may_raise={'SystemExit': 'True', 'SyntaxError': 'True'},
         ensures=[
             # every listed value occupies exactly `width` bytes ...
             f'len(self._bytes) == {W} * len(self._arg_value_list)',
             # ... holding the value reduced modulo 2**(8*width) in the configured byte order
             DONE.format(n='len(self._arg_value_list)')],
         modifies=['self._bytes[*]'], allocates=True,
         lemmas=['to_bytes_def'],
         cases={'self._directive': ['.byte', '.2byte', '.4byte', '.8byte', '.cstr', '.asciiz']},
         locals={'value_bytes': 'bytes', 'arg_val': 'int'},
         loops={'0': dict(idx='i', allocates=True, modifies=['self._bytes[*]'],
                          inv=['i <= len(self._arg_value_list)', f'len(self._bytes) == {W} * i', DONE.format(n='i')]),
                '0.0': dict(idx='m', modifies=['self._bytes[*]'],
                            inv=['m <= len(value_bytes)', f'len(self._bytes) == {W} * i + m', DONE.format(n='i'),
                                 'forall(lambda k: implies(' + W + ' * i <= k and k < ' + W + ' * i + m, '
                                 'elems(self._bytes)[k] == elems(value_bytes)[k - ' + W + ' * i]))'])})

contract(DL + '.__init__', props=['C11'],
         params={'value_list': 'list[union]', 'current_memzone': 'MemoryZone?'},
         ensures=['self._arg_value_list is value_list', 'self._directive == directive_str', 'self._endian == endian',
                  'len(self._bytes) == 0'],
         modifies=['self._line_id', 'self._instruction', 'self._comment', 'self._address', 'self._label_scope',
                   'self._memzone', 'self._is_muted', 'self._bytes', 'self._arg_value_list', 'self._directive',
                   'self._endian', 'self._compilable'],
         allocates=True, no_frame_check=True)

# ---- strings -------------------------------------------------------------------------------------------------------
STR_BYTES = ('len(self._string_bytes) == len(unicode_unescape(value_of(quoted_string))) + 1',
             # one value per character after escape processing ...
             'forall(lambda j: implies(0 <= j and j < len(unicode_unescape(value_of(quoted_string))), '
             'elems(self._string_bytes)[j] == ord(unicode_unescape(value_of(quoted_string))[j])))',
             # ... followed by the configured terminator
             'elems(self._string_bytes)[len(unicode_unescape(value_of(quoted_string)))] == cstr_terminator')
contract(ES + '.__init__', props=['C11'], params={'current_memzone': 'MemoryZone?', 'quoted_string': 'str?'},
         raises={'TypeError': 'quoted_string is None'},   # (regex groups are opaque: group(2) might not take part)
         ensures=list(STR_BYTES) + ['len(self._bytes) == 0'],
         modifies=['self._line_id', 'self._instruction', 'self._comment', 'self._address', 'self._label_scope',
                   'self._memzone', 'self._is_muted', 'self._bytes', 'self._string_bytes', 'self._compilable'],
         allocates=True, no_frame_check=True)

contract(ES + '.factory', props=['C11'], params={'cls': 'opaque', 'current_memzone': 'MemoryZone?'},
         returns='EmbeddedString?', may_raise={'TypeError': 'True'},
         ensures=[  # a bare quoted string ends with the terminator the ISA configures
             'implies(result is not None, len(result._string_bytes) >= 1 and '
             'elems(result._string_bytes)[len(result._string_bytes) - 1] == cstr_terminator)'],
         modifies=[], allocates=True, no_frame_check=True)

# ---- .byte "..." / .cstr "..." : one value per character after escape processing, terminator for .cstr / .asciiz -------
CHARS = 'unicode_unescape(value_of(data_match.group(3)))'
contract(DL + '.factory', props=['C11'], blocks_only=True,
         params={'line_id': 'LineIdentifier', 'current_memzone': 'MemoryZone?'},
         locals={'values_list': 'list[union]', 'directive_str': 'str', 'data_match': 'match', 'converted_str': 'str'},
         blocks={'string': dict(
             where='from:converted_str = :3', locals={},
             requires=['data_match.group(3) is not None'],
             ensures=[
                 f'forall(lambda j: implies(0 <= j and j < len({CHARS}), union_is_int(elems(values_list)[j])'
                 f' and union_int(elems(values_list)[j]) == ord({CHARS}[j])))',
                 f'implies(directive_str == ".cstr" or directive_str == ".asciiz", len(values_list) == len({CHARS}) + 1'
                 f' and union_is_int(elems(values_list)[len({CHARS})])'
                 f' and union_int(elems(values_list)[len({CHARS})]) == cstr_terminator)',
                 f'implies(not (directive_str == ".cstr" or directive_str == ".asciiz"), len(values_list) == len({CHARS}))'],
             modifies=[], allocates=True)})

# ---- .zero n / .zerountil a are fills with the value 0 ------------------------------------------------------------------
FD = LO + '.directive_line.fill_data:FillDataLine'
FU = LO + '.directive_line.fill_data:FillUntilDataLine'
SAME = ('forall(lambda s: xval({e}, s) == text_value({t}, s) and xfails({e}, s) == text_fails({t}, s),'
        ' types={{"s": "LabelScope?"}})')
LINE_FIELDS = ['self._line_id', 'self._instruction', 'self._comment', 'self._address', 'self._label_scope', 'self._memzone',
               'self._is_muted', 'self._bytes', 'self._compilable']
contract(FD + '.__init__', props=['C11'], params={'current_memzone': 'MemoryZone?'},
         may_raise={'SystemExit': 'True', 'SyntaxError': 'True'},
         ensures=[SAME.format(e='self._count_expr', t='fill_count_expression'),
                  SAME.format(e='self._value_expr', t='fill_value_expression'),
                  'self._count is None', 'self._value is None', 'len(self._bytes) == 0'],
         modifies=LINE_FIELDS + ['self._count_expr', 'self._value_expr', 'self._count', 'self._value'],
         allocates=True, no_frame_check=True)
contract(FU + '.__init__', props=['C11'], params={'current_memzone': 'MemoryZone?'},
         may_raise={'SystemExit': 'True', 'SyntaxError': 'True'},
         ensures=[SAME.format(e='self._fill_until_addr_expr', t='fill_until_address_expresion'),
                  SAME.format(e='self._fill_value_expr', t='fill_value_expression'),
                  'self._fill_until_addr is None', 'self._fill_value is None', 'len(self._bytes) == 0'],
         modifies=LINE_FIELDS + ['self._fill_until_addr_expr', 'self._fill_value_expr', 'self._fill_until_addr',
                                 'self._fill_value', 'self._count'],
         allocates=True, no_frame_check=True)

DF = LO + '.directive_line.factory:DirectiveLine.factory'
ZERO_IS_0 = SAME.format(e='value_of(result)._value_expr', t='"0"')
contract(DF, props=['C11'], blocks_only=True, returns='LineObject?',
         # (`^(?:\.zerountil)\s+(<expression>)`: the one group is not optional)
         regex_facts={'DirectiveLine.PATTERN_ZEROUNTIL_DIRECTIVE': [1]},
         params={'line_id': 'LineIdentifier', 'current_memzone': 'MemoryZone?'},
         locals={'line_match': 'match?', 'cleaned_line_str': 'str'},
         blocks={
             'zero': dict(
                 where='from:line_match = re.search(DirectiveLine.PATTERN_ZERO_DIRECTIVE:2', locals={},
                 requires=[], may_raise={'SystemExit': 'True', 'SyntaxError': 'True', 'TypeError': 'True'}, ensures=[],
                 on_return=[  # .zero n is a fill of n bytes with the value of the text "0"
                     'result is not None and isa(value_of(result), "FillDataLine")',
                     SAME.format(e='value_of(result)._value_expr', t='"0"'),
                     SAME.format(e='value_of(result)._count_expr', t='value_of(value_of(line_match).group(1))')],
                 modifies=[], allocates=True),
             'zerountil': dict(
                 where='from:line_match = re.search(DirectiveLine.PATTERN_ZEROUNTIL_DIRECTIVE:2', locals={},
                 requires=[], may_raise={'SystemExit': 'True', 'SyntaxError': 'True', 'TypeError': 'True'}, ensures=[],
                 on_return=[  # .zerountil a fills with the value of the text "0" up to the address a
                     'result is not None and isa(value_of(result), "FillUntilDataLine")',
                     SAME.format(e='value_of(result)._fill_value_expr', t='"0"'),
                     SAME.format(e='value_of(result)._fill_until_addr_expr', t='value_of(value_of(line_match).group(1))')],
                 modifies=[], allocates=True)})
