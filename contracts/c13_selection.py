"""C13 - variant and operand selection follows the documented priority only (selection structure)."""
from pyvc.registry import contract, spec, lemma
from . import common, abstract_expr  # noqa

GEN = 'bespokeasm.assembler.bytecode.generator.instruction:InstructionBytecodeGenerator'


# whether a variant's operand pattern accepts the operands, and which variant produced an assembled instruction, are
# abstract (deterministic) facts about generate_variant_bytecode_parts; what is verified is the ORDER of the search
@spec(uninterpreted=True, sig=['InstructionVariant', 'str', 'str?', 'AssemblerModel', 'MemoryZoneManager', 'bool'],
      heap_reads=[])
def v_accepts(variant, mnemonic, operands, isa_model, memzone_manager):
    """the variant's operand pattern accepts the operands"""


@spec(uninterpreted=True, sig=['AssembledInstruction', 'InstructionVariant?'], heap_reads=[])
def made_by(assembled):
    """the variant an assembled instruction was generated from (ghost)"""


contract(GEN + '.generate_variant_bytecode_parts', props=['C13', 'C01'], assumed=True,
         reason='deterministic in its arguments; returns None exactly when the variant\'s operand pattern does not accept the '
                'operands (the matcher itself is regex-based); the result is tagged with the variant that made it',
         params={'operands': 'str?'}, returns='AssembledInstruction?',
         may_raise={'SystemExit': 'True'},
         ensures=['(result is not None) == v_accepts(variant, mnemonic, operands, isa_model, memzone_manager)',
                  'implies(result is not None, made_by(value_of(result)) is variant and fresh(result))'],
         modifies=[], allocates=True, no_frame_check=True)

ACC = 'v_accepts(elems(instruction._variants)[{i}], mnemonic, operands, isa_model, memzone_manager)'
contract(GEN + '.generate_bytecode_parts', props=['C13'],
         params={'operands': 'str?'},
         may_raise={'SystemExit': 'True'},
         ensures=[  # variants are tried in definition order and the first whose operand pattern accepts the operands is used
             'forall(lambda j: implies(0 <= j and j < len(instruction._variants) and ' + ACC.format(i='j')
             + ' and forall(lambda k: implies(0 <= k and k < j, not ' + ACC.format(i='k') + ')),'
             ' made_by(result) is elems(instruction._variants)[j]))',
             # and a statement no variant accepts is rejected
             'exists(lambda j: 0 <= j and j < len(instruction._variants) and ' + ACC.format(i='j') + ')'],
         modifies=[], allocates=True, no_frame_check=True,
         loops={'0': dict(idx='i', allocates=True,
                          inv=['forall(lambda k: implies(0 <= k and k < i, not ' + ACC.format(i='k') + '))'])})

# ---- operand sets: the alternatives of a set are tried in their (sorted) list order, first match wins ----------------
OS = 'bespokeasm.assembler.model.operand_set:OperandSet.parse_operand'


@spec(uninterpreted=True, sig=['Operand', 'str', 'set[str]', 'MemoryZoneManager', 'bool'], heap_reads=[])
def o_accepts(operand, text, registers, memzone_manager):
    """the operand alternative accepts the operand text"""


@spec(uninterpreted=True, sig=['ParsedOperand', 'Operand?'], heap_reads=[])
def parsed_by(parsed):
    """the operand alternative that produced a parsed operand (ghost)"""


contract('bespokeasm.assembler.model.operand:Operand.parse_operand', props=['C13'], assumed=True, covers_overrides=True,
         reason='each of the 13 operand types matches its text with a regular expression; deterministic, effect-free',
         returns='ParsedOperand?', may_raise={'SystemExit': 'True', 'NotImplementedError': 'True'},
         ensures=['(result is not None) == o_accepts(self, operand, register_labels, memzone_manager)',
                  'implies(result is not None, parsed_by(value_of(result)) is self)'],
         modifies=[], allocates=True, no_frame_check=True)

OACC = 'o_accepts(elems(self._ordered_operand_list)[{i}], operand_str, register_labels, memzone_manager)'
contract(OS, props=['C13'], returns='ParsedOperand?',
         may_raise={'SystemExit': 'True', 'NotImplementedError': 'True'},
         ensures=[
             'forall(lambda j: implies(0 <= j and j < len(self._ordered_operand_list) and ' + OACC.format(i='j')
             + ' and forall(lambda k: implies(0 <= k and k < j, not ' + OACC.format(i='k') + ')),'
             ' result is not None and parsed_by(value_of(result)) is elems(self._ordered_operand_list)[j]))',
             'implies(result is None, forall(lambda k: implies(0 <= k and k < len(self._ordered_operand_list), not '
             + OACC.format(i='k') + ')))'],
         modifies=[], allocates=True, no_frame_check=True,
         loops={'0': dict(idx='i', allocates=True,
                          inv=['forall(lambda k: implies(0 <= k and k < i, not ' + OACC.format(i='k') + '))'])})

# ---- the documented precedence of operand types inside a set (the enum values double as the sort key) -----------------
# bracketed / register-indexed forms < enumeration keys < plain registers < numeric expressions and addresses
lemma('operand_type_priority', vars={},
      hyps=[],
      concl=['OperandType.INDIRECT_REGISTER.value < OperandType.DICTIONARY_KEY.value',
             'OperandType.INDIRECT_INDEXED_REGISTER.value < OperandType.DICTIONARY_KEY.value',
             'OperandType.INDIRECT_NUMERIC.value < OperandType.DICTIONARY_KEY.value',
             'OperandType.DEFERRED_NUMERIC.value < OperandType.DICTIONARY_KEY.value',
             'OperandType.INDEXED_REGISTER.value < OperandType.DICTIONARY_KEY.value',
             'OperandType.DICTIONARY_KEY.value < OperandType.REGISTER.value',
             'OperandType.REGISTER.value < OperandType.NUMERIC.value',
             'OperandType.REGISTER.value < OperandType.ADDRESS.value',
             'OperandType.REGISTER.value < OperandType.RELATIVE_ADDRESS.value',
             'OperandType.REGISTER.value < OperandType.NUMERIC_BYTECODE.value'],
      by='smt', props=['C13'])

# ---- a register name is never accepted where a numeric expression is expected ----------------------------------------
P = 'bespokeasm.assembler.bytecode.parts:'


@spec(uninterpreted=True, sig=['ExpressionNode', 'set[str]', 'bool'], heap_reads=['set[str]'])
def mentions_register(expr, registers):
    """some label leaf of the expression is a register name"""


contract('bespokeasm.expression:ExpressionNode.contains_register_labels', props=['C13'], assumed=True,
         reason='set intersection of the label leaves with the register names (recursive tree walk)',
         ensures=['result == mentions_register(self, register_labels)'], modifies=[], no_frame_check=True)
EXPR_INIT = dict(props=['C13'], assumed=True, may_raise={'SystemExit': 'True', 'SyntaxError': 'True'},
                 reason='stores its arguments and parses the expression text', modifies=[], no_frame_check=True,
                 ensures=['self._value_size == value_size', 'self._byte_align == byte_align', 'self._endian == endian'])
contract(P + 'ExpressionByteCodePart.__init__', **EXPR_INIT)
contract(P + 'ExpressionByteCodePartInMemoryZone.__init__', params={'memzone': 'MemoryZone?'}, **EXPR_INIT)
contract(P + 'NumericByteCodePart.__init__', props=['C13'],
         ensures=['self._value == value', 'self._value_size == value_size', 'self._byte_align == byte_align',
                  'self._endian == endian'],
         modifies=['self._value', 'self._value_size', 'self._byte_align', 'self._endian', 'self._line_id'])

NE = 'bespokeasm.assembler.model.operand.types.numeric_expression:NumericExpressionOperand._parse_bytecode_parts'
contract(NE, props=['C13'], returns='ParsedOperand?',
         may_raise={'SystemExit': 'True', 'SyntaxError': 'True', 'KeyError': 'True'},
         ensures=['implies(result is not None, result._argument is not None and isa(result._argument, "ExpressionByteCodePart")'
                  ' and not mentions_register(result._argument._parsed_expression, register_labels))',
                  'implies(result is not None, result._operand is self)',
                  # the text kept with the parsed operand is the text it was given (C10: what @OP(n) expands to)
                  'implies(result is not None, result._operand_str == operand)'],
         modifies=[], allocates=True, no_frame_check=True)

# ---- operand sets of a variant: one alternative per position, disallowed combinations skipped --------------------------
OSM = 'bespokeasm.assembler.model.operand_parser:OperandSetsModel.find_operands_from_operand_sets'
contract('bespokeasm.assembler.model.operand_parser:MatchedOperandSet.__init__', props=['C13'],
         ensures=['self._operands is operands', 'self._reverse_arg_order == reverse_arg_order',
                  'self._reverse_op_bytecode_order == reverse_op_bytecode_order'],
         modifies=['self._operands', 'self._reverse_arg_order', 'self._reverse_op_bytecode_order'])


@spec
def listed_combo(cfg_pairs, ids, n):
    """the ordered list of operand ids is one of the configured disallowed combinations (same ids, same order)"""
    return exists(lambda k: 0 <= k and k < cfg_len(cfg_pairs) and cfg_len(cfg_item(cfg_pairs, k)) == n
                  and forall(lambda j: implies(0 <= j and j < n, cfg_str(cfg_item(cfg_item(cfg_pairs, k), j)) == ids[j])))


IDS = 'lam(lambda j: elems(result._operands)[j]._operand._id)'
contract(OSM, props=['C13'], returns='MatchedOperandSet?',
         may_raise={'SystemExit': 'True', 'NotImplementedError': 'True', 'AttributeError': 'True'},
         ensures=[
             # a match has one parsed operand per configured position ...
             'implies(result is not None, len(result._operands) == len(self._operand_sets) and len(operands) == len(self._operand_sets))',
             # ... and is never a combination that the definition disallows (compared as an ordered list of operand ids)
             'implies(result is not None and "disallowed_pairs" in self._config, not listed_combo('
             f'self._config["disallowed_pairs"], {IDS}, len(result._operands)))'],
         modifies=[], allocates=True, no_frame_check=True,
         locals={'matched_operands': 'list[ParsedOperand]', 'operand_ids': 'list[str]'},
         loops={'0': dict(idx='ci', allocates=True, modifies=['matched_operands[*]'],
                          inv=['len(matched_operands) == ci', 'ci <= len(self._operand_sets)',
                               'len(operands) == len(self._operand_sets)', 'fresh(matched_operands)',
                               'forall(lambda j: implies(0 <= j and j < ci, elems(matched_operands)[j]._operand is not None))'])})

# ---- inside a variant: explicitly listed operand combinations are tried before operand sets ---------------------------
OPP = 'bespokeasm.assembler.model.operand_parser:OperandParser.find_matching_operands'
SOM = 'bespokeasm.assembler.model.operand_parser:SpecificOperandsModel.find_operands_from_specific_operands'


@spec(uninterpreted=True, sig=['SpecificOperandsModel', 'list[str]', 'int', 'set[str]', 'MemoryZoneManager', 'bool'],
      heap_reads=['list[str]', 'set[str]'])
def listed_accepts(model, operands, count, registers, memzone_manager):
    """some explicitly listed operand combination accepts the operand list"""


@spec(uninterpreted=True, sig=['MatchedOperandSet', 'bool'], heap_reads=[])
def from_listed(matched):
    """the match was produced by an explicitly listed combination (ghost)"""


contract(SOM, props=['C13'], assumed=True, returns='MatchedOperandSet?',
         reason='walks the listed combinations with the per-operand regex matchers (deterministic, effect-free); a match it '
                'returns is tagged as coming from a listed combination',
         may_raise={'SystemExit': 'True', 'NotImplementedError': 'True'},
         ensures=['(result is not None) == listed_accepts(self, operands, target_operand_count, register_labels, memzone_manager)',
                  'implies(result is not None, from_listed(value_of(result)))'],
         modifies=[], allocates=True, no_frame_check=True)

LISTED = ('(self._specific_operands_model is not None and listed_accepts(self._specific_operands_model, operands,'
          ' cfg_int(self._config["count"]), register_labels, memzone_manager))')
NO_OPS = '(cfg_int(self._config["count"]) == 0 and len(operands) == 0)'
contract(OPP, name='order-of-matchers', props=['C13'], returns='MatchedOperandSet?',
         requires=['"count" in self._config'],        # (established by OperandParser.__init__)
         locals={'matched_operands': 'MatchedOperandSet?'},   # (annotated list[ParsedOperand] in the source, holds a MatchedOperandSet)
         may_raise={'SystemExit': 'True', 'NotImplementedError': 'True', 'AttributeError': 'True'},
         ensures=[
             # nothing to match: the empty match
             f'implies({NO_OPS}, result is not None and len(result._operands) == 0)',
             # a listed combination that accepts the operands wins; the operand sets are not consulted
             f'implies(not {NO_OPS} and {LISTED}, result is not None and from_listed(value_of(result)))',
             # without one, the statement is matched by the operand sets or not at all
             f'implies(not {NO_OPS} and not {LISTED} and self._operand_sets_model is None, result is None)'],
         modifies=[], allocates=True, no_frame_check=True)


# ---- the order in which an instruction's variants are tried is the order of the ISA definition ---------------------------
# (the generator walks `instruction.variants` front to back; this is where that list is built: the instruction's own
#  configuration first when it has a byte code, then the entries of `variants:` in the order they are listed)
INS = 'bespokeasm.assembler.model.instruction'
contract(INS + ':InstructionVariant.__init__', name='abs:InstructionVariant.__init__', props=['C13'], assumed=True,
         reason='construction of one variant from its own configuration entry (operand parser construction and '
                'validation are kernels of C19); only the entry it keeps is stated',
         params={'instruction_variant_config': 'cfg', 'operand_set_collection': 'OperandSetCollection'},
         may_raise={'SystemExit': 'True'}, ensures=['self._variant_config == instruction_variant_config'],
         modifies=[], no_frame_check=True)

ROOT = 'ite("bytecode" in instruction_config, 1, 0)'
NVAR = 'ite("variants" in instruction_config, cfg_len(instruction_config["variants"]), 0)'
contract(INS + ':Instruction.__init__', name='variant-order', props=['C13'],
         params={'instruction_config': 'cfg', 'operand_set_collection': 'OperandSetCollection'},
         may_raise={'SystemExit': 'True'},
         ensures=[f'len(self._variants) == {ROOT} + {NVAR}',
                  'implies("bytecode" in instruction_config, elems(self._variants)[0]._variant_config == instruction_config)',
                  f'forall(lambda j: implies(0 <= j and j < {NVAR}, elems(self._variants)[{ROOT} + j]._variant_config'
                  ' == cfg_item(instruction_config["variants"], j)))'],
         modifies=['self._mnemonic', 'self._default_endian', 'self._registers', 'self._config', 'self._variants'],
         allocates=True, no_frame_check=True,
         loops={'0': dict(idx='i', allocates=True, modifies=['self._variants[*]'],
                          inv=[f'len(self._variants) == {ROOT} + i', 'i <= cfg_len(instruction_config["variants"])', 'fresh(self._variants)', 'self._config == instruction_config',
                               'implies("bytecode" in instruction_config,'
                               ' elems(self._variants)[0]._variant_config == instruction_config)',
                               f'forall(lambda j: implies(0 <= j and j < i, elems(self._variants)[{ROOT} + j]._variant_config'
                               ' == cfg_item(instruction_config["variants"], j)))'])})



# ---- "a register name is never accepted where a numeric expression is expected": the label leaves of an expression --------
# (contains_register_labels intersects this set with the register names; a leaf under a unary node -- negation, LSB(),
#  BYTEn() -- is a leaf of the expression like any other)
from .c07_expressions import HEAPS, WF  # noqa: E402


@spec(rec=True, sig=['ExpressionNode?', 'arr[TokenType]', 'arr[union]', 'arr[Optional[ExpressionNode]]',
                     'arr[Optional[ExpressionNode]]', 'str', 'bool'])
def has_label(n, TT, VAL, L, R, w):
    """w is the text of some label leaf of the (well-formed) tree n"""
    if TT[n].value == 1:
        return union_str(VAL[n]) == w
    if TT[n].value == 0:
        return False
    if TT[n].value == 2 or TT[n].value == 13 or TT[n].value == 14:
        return has_label(L[n], TT, VAL, L, R, w)
    return has_label(L[n], TT, VAL, L, R, w) or has_label(R[n], TT, VAL, L, R, w)


contract('bespokeasm.expression:ExpressionNode.contained_labels', name='label-leaves', props=['C13'], returns='set[str]',
         requires=[WF],
         ensures=[f'forall(lambda w: (w in result) == has_label(self, {HEAPS}, w), types={{"w": "str"}})'],
         modifies=[], allocates=True, no_frame_check=True)
