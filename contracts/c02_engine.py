"""C02 / C04 / C05 / C03 / C14 - the engine (Assembler.assemble_bytecode), verified block by block.

The 160-line function mixes file handling, include resolution and printing with the three kernels the properties
rest on; each kernel is a loop (or loop body) given a block contract and verified in isolation from an arbitrary
state satisfying the block's precondition."""
from pyvc.registry import contract, spec
from . import common, abstract_expr, c02_lines, c02_lines_abs, c05_memzone, c06_scopes  # noqa

ENG = 'bespokeasm.assembler.engine:Assembler.assemble_bytecode'

A_ = 'value_of(line_addr(lobj))'
Z_ = 'lobj._memzone'

PLACE = dict(
    props=['C02', 'C05'],
    where='loop[@for lobj in compilable_line_obs#0|2].body', locals={'lobj': 'LineObject'},
    requires=['line_wf(lobj)', 'place_wf(lobj)', f'zone_ok({Z_})', f'{Z_}._start >= 0',
              'implies(isa(lobj, "AddressOrgLine"), "GLOBAL" in lobj._memzone_manager._zones)',
              'implies(isa(lobj, "LabelLine"), lobj._label_scope is not None and scope_wf(lobj._label_scope))'],
    may_raise={'SystemExit': 'True'},
    ensures=[
        # C02: an ordinary line is placed at the zone's cursor, i.e. right after the previous line of the same zone
        f'implies(not isa(lobj, "AddressOrgLine") and not isa(lobj, "PageAlignLine"), {A_} == old({Z_}._current_address))',
        # C02: an alignment moves to the smallest multiple of its page size that is not below the cursor
        f'implies(isa(lobj, "PageAlignLine"), {A_} % old(page_of(lobj, lobj._label_scope)) == 0'
        f' and {A_} >= old({Z_}._current_address) and {A_} - old({Z_}._current_address) < old(page_of(lobj, lobj._label_scope)))',
        # C02/C05: an origin line is placed at its origin value (absolute, or relative to the named zone's start)
        f'implies(isa(lobj, "AddressOrgLine"), {A_} == org_value(lobj))',
        # C02: the cursor of the line's zone advances by exactly the reserved size
        f'{Z_}._current_address == {A_} + line_size(lobj)',
        # C05: the line lies inside its zone (a line that would not is rejected: the only way past the setter)
        f'{Z_}._start <= {A_}', f'{A_} + line_size(lobj) <= {Z_}._end + 1', f'zone_ok({Z_})',
        # C02: an address label is bound to the address of its line
        'implies(isa(lobj, "LabelLine") and lobj._value is None,'
        ' has(target(lobj._label_scope, kind_of(lobj._label)), lobj._label)'
        f' and val(target(lobj._label_scope, kind_of(lobj._label)), lobj._label) == {A_})'],
    modifies=['lobj._address', 'lobj._page_size', 'lobj._count', 'lobj._fill_until_addr',
              f'{Z_}._current_address', 'target(lobj._label_scope, kind_of(lobj._label))._labels[*]'],
    allocates=True)



# ---- second pass: emitted == reserved (C02) and no two byte-producing lines share an address (C04) ----------------
LST = 'compilable_line_obs'
Lj = f'elems({LST})[j]'
Lk = f'elems({LST})[k]'
N = f'len({LST})'


@spec
def is_bytes_line(l):
    return isa(l, 'LineWithBytes')


@spec
def a_of(l):
    return value_of(line_addr(l))


@spec
def end_of(l):
    """one past the last address the line occupies"""
    return value_of(line_addr(l)) + line_size(l)


@spec
def addressable(l):
    """the line has been placed, and asking for its address cannot fail any more"""
    return (line_addr(l) is not None
            and implies(isa(l, 'AddressOrgLine'), 'GLOBAL' in l._memzone_manager._zones and not org_fails(l)))


def all_lines(body, lo='0', hi=N, var='j'):
    return f'forall(lambda {var}: implies({lo} <= {var} and {var} < {hi}, {body}))'


LIST_OK = [
    all_lines(f'line_wf({Lj}) and addressable({Lj}) and allocated({Lj}) and not size_fails({Lj})'),
    # the lines are distinct objects and every byte-producing line owns its buffer
    f'forall(lambda j, k: implies(0 <= j and j < k and k < {N}, {Lj} != {Lk}'
    f' and implies(is_bytes_line({Lj}) and is_bytes_line({Lk}), not ({Lj}._bytes is {Lk}._bytes))))',
    # sorted by address (the engine sorts the list just before this block)
    f'forall(lambda j, k: implies(0 <= j and j < k and k < {N}, a_of({Lj}) <= a_of({Lk})))',
]

# (pairwise disjointness -- invariants 7, 8, 10 and the first postcondition -- is C04's alone: C02 and C14 use this block for
#  "every byte line gets its bytes, as many as reserved", so a change that only weakens the overlap test alarms C04 only)
NOT_DISJOINTNESS = ['.preserve[7]', '.preserve[8]', '.preserve[10]', '.establish[7]', '.establish[8]', '.establish[10]',
                    'block[overlap]/ensures[0]']
MUTED_BYTES = ['.preserve[11]', '.establish[11]', 'block[overlap]/ensures[3]']
EMITTED = ['.preserve[5]', '.establish[5]', 'block[overlap]/ensures[1]', 'block[overlap]/ensures[2]'] + MUTED_BYTES
OVERLAP = dict(
    props=['C04', 'C02', 'C14'], shards=12,
    skip_for={'C02': NOT_DISJOINTNESS + MUTED_BYTES, 'C14': NOT_DISJOINTNESS, 'C04': EMITTED},
    where='loop[@for lobj in compilable_line_obs#1|3]', locals={LST: 'list[LineObject]', 'last_line': 'LineWithBytes?', 'lobj': 'LineObject'},
    requires=LIST_OK + ['last_line is None',
                        all_lines(f'implies(is_bytes_line({Lj}), len({Lj}._bytes) == 0)')],
    may_raise={'SystemExit': 'True', 'ValueError': 'True', 'NotImplementedError': 'True'},
    ensures=[
        # C04: if the pass completes, no two byte-producing lines occupy a common address
        f'forall(lambda j, k: implies(0 <= j and j < k and k < {N} and is_bytes_line({Lj}) and is_bytes_line({Lk}),'
        f' end_of({Lj}) <= a_of({Lk})))',
        # C02: what every byte-producing line finally emitted is exactly the space reserved for it
        all_lines(f'implies(is_bytes_line({Lj}) and not {Lj}._is_muted, len({Lj}._bytes) == line_size({Lj}))'),
        all_lines(f'line_size({Lj}) == old(line_size({Lj}))'),
        # C14: muted lines are assembled too (their labels and values are checked although their bytes go nowhere)
        all_lines(f'implies(is_bytes_line({Lj}) and {Lj}._is_muted, len({Lj}._bytes) == line_size({Lj}))'),
    ],
    modifies=['all-lists:bytearray', '*._count:FillDataLine', '*._value:FillDataLine',
              '*._fill_until_addr:FillUntilDataLine', '*._fill_value:FillUntilDataLine'],
    allocates=True)

OVERLAP_INV = dict(
    idx='i', allocates=True,
    modifies=['all-lists:bytearray', '*._count:FillDataLine', '*._value:FillDataLine',
              '*._fill_until_addr:FillUntilDataLine', '*._fill_value:FillUntilDataLine'],
    inv=LIST_OK + [
        f'i <= {N}',
        all_lines(f'line_size({Lj}) == entry(line_size({Lj}))'),
        # processed byte lines carry their bytes, the others are still empty
        all_lines(f'implies(is_bytes_line({Lj}) and not {Lj}._is_muted, len({Lj}._bytes) == line_size({Lj}))', hi='i'),
        all_lines(f'implies(is_bytes_line({Lj}), len({Lj}._bytes) == 0)', lo='i'),
        # pairwise disjointness of the processed byte lines
        f'forall(lambda j, k: implies(0 <= j and j < k and k < i and is_bytes_line({Lj}) and is_bytes_line({Lk}),'
        f' end_of({Lj}) <= a_of({Lk})))',
        # last_line is the latest byte line seen: everything before it ends no later than it does
        all_lines(f'implies(is_bytes_line({Lj}), last_line is not None and end_of({Lj}) <= end_of(last_line))', hi='i'),
        'implies(last_line is not None, is_bytes_line(last_line) and line_wf(last_line) and addressable(last_line)'
        ' and not size_fails(last_line) and allocated(last_line))',
        all_lines('implies(last_line is not None, a_of(last_line) <= a_of(' + Lj + ') and last_line != ' + Lj + ')', lo='i'),
        # [11] muted byte lines that were processed carry their bytes as well (C14)
        all_lines(f'implies(is_bytes_line({Lj}) and {Lj}._is_muted, len({Lj}._bytes) == line_size({Lj}))', hi='i'),
    ])

contract(ENG, props=['C02', 'C04', 'C05', 'C14'], name='engine', blocks_only=True,
         blocks={'place': PLACE, 'overlap': OVERLAP}, loops={'@for lobj in compilable_line_obs#1|3': OVERLAP_INV})


# ---- the glue between loading and the two passes: which lines take part --------------------------------------------------
@spec(rec=True, sig=['arr[LineObject]', 'arr[bool]', 'int', 'int'])
def ncomp(lines, COMP, n):
    """how many of the first n lines are compilable: selected by every enclosing conditional block -- or a conditional
    directive itself (ConditionLine.compilable is always True; such a line has no bytes and no address effect)"""
    if n <= 0:
        return 0
    return ncomp(lines, COMP, n - 1) + ite(isa(lines[n - 1], 'ConditionLine') or COMP[lines[n - 1]], 1, 0)


NCOMP = "ncomp(elems(line_obs), fld('LineObject._compilable'), {n})"
contract(ENG, name='engine-lines', props=['C03', 'C04', 'C08', 'C14'], blocks_only=True,
         locals={'line_obs': 'list[LineObject]', LST: 'list[LineObject]', 'predefined_line_obs': 'list[LineObject]'},
         blocks={
             # the lines that are assembled are the compilable ones: none that an unselected branch holds, none dropped
             'collect': dict(where='from:compilable_line_obs = [lobj for lobj in line_obs:1', locals={},
                             requires=['allocated(line_obs)'],
                             ensures=[f'forall(lambda j: implies(0 <= j and j < {N}, isa({Lj}, "ConditionLine") or {Lj}._compilable))',
                                      f'{N} == ' + NCOMP.format(n='len(line_obs)')],
                             modifies=[], allocates=True),
             # the data blocks predefined by the ISA definition join them (they are memory content like any other line)
             'merge': dict(where='from:compilable_line_obs.extend(predefined_line_obs):1', locals={},
                           requires=[f'{LST} is not predefined_line_obs'],
                           ensures=[f'{N} == old({N}) + len(predefined_line_obs)',
                                    f'forall(lambda j: implies(0 <= j and j < old({N}), {Lj} is old(elems({LST}))[j]))',
                                    f'forall(lambda j: implies(0 <= j and j < len(predefined_line_obs),'
                                    f' elems({LST})[old({N}) + j] is elems(predefined_line_obs)[j]))'],
                           modifies=[f'{LST}[*]'])},
         loops={'comp0': dict(idx='m', allocates=True, modifies=[f'{LST}[*]'],
                              inv=[f'forall(lambda j: implies(0 <= j and j < {N}, isa({Lj}, "ConditionLine") or {Lj}._compilable))',
                                   f'{N} == ' + NCOMP.format(n='m'), 'm <= len(line_obs)', f'fresh({LST})',
                                   f'{LST} is not line_obs', 'line_obs is entry(line_obs)'])})


# ---- the data blocks predefined by the ISA definition: one line per entry, with the entry's size, value and address ---------
PDL = 'bespokeasm.assembler.line_object.predefined_data:PredefinedDataLine'
contract(PDL + '.__init__', name='predefined-data-line', props=['C03', 'C04'],
         ensures=['self._byte_length == byte_length', 'self._byte_value == byte_value', 'self._memzone is current_memzone',
                  'self._address is None', 'len(self._bytes) == 0'],
         modifies=[], allocates=True, no_frame_check=True)
PITEM = "cfg_item(self._model._config['predefined']['data'], j)"
PLINE = 'elems(predefined_line_obs)[j]'
PRE_OK = (f'isa({PLINE}, "PredefinedDataLine") and {PLINE}._byte_length == cfg_int({PITEM}["size"])'
          f' and {PLINE}._byte_value == cfg_int({PITEM}["value"]) and {PLINE}._address is not None'
          f' and value_of({PLINE}._address) == cfg_int({PITEM}["address"])')
contract(ENG, name='engine-predefined', props=['C03', 'C04'], blocks_only=True,
         locals={'predefined_line_obs': 'list[LineObject]', 'predefines_lineid': 'LineIdentifier',
                 'global_label_scope': 'LabelScope', 'memzone_manager': 'MemoryZoneManager'},
         blocks={'predefined': dict(
             where='loop[@for predefined_memory in self._model.predefined_data_blocks#0|0]', locals={},
             requires=['len(predefined_line_obs) == 0', '"predefined" in self._model._config',
                       '"data" in self._model._config["predefined"]', '"GLOBAL" in memzone_manager._zones',
                       'scope_wf(global_label_scope)', 'isa(global_label_scope, "GlobalLabelScope")',
                       # (addresses of predefined blocks are not negative: a configuration assumption, not checked by the model)
                       "forall(lambda j: implies(0 <= j and j < cfg_len(self._model._config['predefined']['data']),"
                       " cfg_int(cfg_item(self._model._config['predefined']['data'], j)['address']) >= 0))"],
             may_raise={'SystemExit': 'True', 'KeyError': 'True', 'ValueError': 'True'},
             ensures=["len(predefined_line_obs) == cfg_len(self._model._config['predefined']['data'])",
                      f'forall(lambda j: implies(0 <= j and j < len(predefined_line_obs), {PRE_OK}))'],
             modifies=['predefined_line_obs[*]', 'all-dicts:dict[str,LabelInfo]'], allocates=True)},
         loops={'@for predefined_memory in self._model.predefined_data_blocks#0|0': dict(
             idx='i', allocates=True, modifies=['predefined_line_obs[*]', 'all-dicts:dict[str,LabelInfo]'],
             inv=["i <= cfg_len(self._model._config['predefined']['data'])", 'len(predefined_line_obs) == i',
                  f'forall(lambda j: implies(0 <= j and j < i, {PRE_OK}))', 'scope_wf(global_label_scope)',
                  'isa(global_label_scope, "GlobalLabelScope")', 'predefined_line_obs is entry(predefined_line_obs)'])})
