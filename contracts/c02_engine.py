"""C02 / C04 / C05 / C03 / C14 - the engine (Assembler.assemble_bytecode), verified block by block.

The 160-line function mixes file handling, include resolution and printing with the three kernels the properties
rest on; each kernel is a loop (or loop body) given a block contract and verified in isolation from an arbitrary
state satisfying the block's precondition."""
from pyvc.registry import contract, spec
from . import common, abstract_expr, c02_lines, c02_lines_abs, c05_memzone, c06_scopes  # noqa

ENG = 'bespokeasm.assembler.engine:Assembler.assemble_bytecode'

A_ = 'value_of(line_addr(lobj))'
Z_ = 'lobj._memzone'

PLACE = dict(
    where='loop[2].body', locals={'lobj': 'LineObject'},
    requires=['line_wf(lobj)', 'place_wf(lobj)', f'zone_ok({Z_})', f'{Z_}._start >= 0',
              'implies(isa(lobj, "AddressOrgLine"), "GLOBAL" in lobj._memzone_manager._zones)',
              'implies(isa(lobj, "LabelLine"), lobj._label_scope is not None and scope_wf(lobj._label_scope))'],
    may_raise={'SystemExit': 'True'},
    ensures=[
        # C02: an ordinary line is placed at the zone's cursor, i.e. right after the previous line of the same zone
        f'implies(not isa(lobj, "AddressOrgLine") and not isa(lobj, "PageAlignLine"), {A_} == old({Z_}._current_address))',
        # C02: an alignment moves to the smallest multiple of its page size that is not below the cursor
        f'implies(isa(lobj, "PageAlignLine"), {A_} % old(page_of(lobj, lobj._label_scope)) == 0'
        f' and {A_} >= old({Z_}._current_address) and {A_} - old({Z_}._current_address) < old(page_of(lobj, lobj._label_scope)))',
        # C02/C05: an origin line is placed at its origin value (absolute, or relative to the named zone's start)
        f'implies(isa(lobj, "AddressOrgLine"), {A_} == org_value(lobj))',
        # C02: the cursor of the line's zone advances by exactly the reserved size
        f'{Z_}._current_address == {A_} + line_size(lobj)',
        # C05: the line lies inside its zone (a line that would not is rejected: the only way past the setter)
        f'{Z_}._start <= {A_}', f'{A_} + line_size(lobj) <= {Z_}._end + 1', f'zone_ok({Z_})',
        # C02: an address label is bound to the address of its line
        'implies(isa(lobj, "LabelLine") and lobj._value is None,'
        ' has(target(lobj._label_scope, kind_of(lobj._label)), lobj._label)'
        f' and val(target(lobj._label_scope, kind_of(lobj._label)), lobj._label) == {A_})'],
    modifies=['lobj._address', 'lobj._page_size', 'lobj._count', 'lobj._fill_until_addr',
              f'{Z_}._current_address', 'target(lobj._label_scope, kind_of(lobj._label))._labels[*]'],
    allocates=True)

contract(ENG, props=['C02', 'C05'], name='engine', blocks_only=True, blocks={'place': PLACE})
