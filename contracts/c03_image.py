"""C03 - the binary image is a faithful window onto the assembled memory map (engine blocks after the second pass)."""
from pyvc.registry import contract, spec
from . import common, c02_lines_abs, c02_engine  # noqa
from .c02_engine import ENG

TAKE = '(is_bytes_line(lobj) and not lobj._is_muted)'
A_ = 'a_of(lobj)'
NB = 'len(lobj._bytes)'
INR = f'({TAKE} and {A_} <= a and a < {A_} + {NB})'

# one line's contribution to the address -> byte map
MEMMAP_BODY = dict(
    where='loop[4].body', locals={'lobj': 'LineObject', 'memory': 'dict[int,int]'},
    requires=['addressable(lobj)', 'self._verbose <= 2'],
    ensures=[
        # exactly the addresses of this line's bytes are added -- and only if the line is an unmuted byte line
        f'forall(lambda a: (a in memory) == (old(a in memory) or {INR}))',
        f'forall(lambda a: implies({INR}, mapping(memory)[a] == elems(lobj._bytes)[a - {A_}]))',
        f'forall(lambda a: implies(not {INR}, mapping(memory)[a] == old(mapping(memory))[a]))',
    ],
    modifies=['memory[*]'])
MEMMAP_INNER = dict(
    idx='t', modifies=['memory[*]'], types={'offset': 'int', 'byte_value': 'int'},
    inv=['t <= len(line_bytes)', 'line_bytes is lobj._bytes', 'addressable(lobj)',
         f'forall(lambda a: (a in memory) == (entry(a in memory) or ({A_} <= a and a < {A_} + t)))',
         f'forall(lambda a: implies({A_} <= a and a < {A_} + t, mapping(memory)[a] == elems(lobj._bytes)[a - {A_}]))',
         f'forall(lambda a: implies(not ({A_} <= a and a < {A_} + t), mapping(memory)[a] == entry(mapping(memory))[a]))'])


@spec
def cell(memory, a, fill):
    """what the image shows at address a: the assembled byte, or the fill value where no byte was assembled"""
    if a in memory:
        return mapping(memory)[a]
    return fill


START = 'self._binary_start'
WINDOW = dict(
    where='span(4:5]', locals={'memory': 'dict[int,int]', 'bytecode': 'bytearray', 'last_address': 'int', 'addr': 'int'},
    requires=['len(bytecode) == 0', '0 <= self._binary_fill_value and self._binary_fill_value <= 255',
              'forall(lambda a: implies(a in memory, 0 <= mapping(memory)[a] and mapping(memory)[a] <= 255))'],
    ensures=[
        # an explicit window [start, end] has length end - start + 1 (empty if end < start)
        f'implies(self._binary_end is not None, last_address == value_of(self._binary_end))',
        # with no end given the window ends at the highest address that received an emitted byte
        'implies(self._binary_end is None, forall(lambda a: implies(a in memory, a <= last_address)))',
        f'implies(self._binary_end is None, (last_address in memory) or last_address == {START} - 1)',
        f'len(bytecode) == ite(last_address >= {START}, last_address - {START} + 1, 0)',
        # offset a - start holds the byte assembled for address a, the fill value where none was; nothing else
        f'forall(lambda a: implies({START} <= a and a <= last_address,'
        f' elems(bytecode)[a - {START}] == cell(memory, a, self._binary_fill_value)))',
    ],
    modifies=['bytecode[*]'])
WINDOW_INV = dict(
    idx='i', modifies=['bytecode[*]'],
    inv=['len(bytecode) == i',
         f'forall(lambda j: implies(0 <= j and j < i, elems(bytecode)[j] == cell(memory, {START} + j, self._binary_fill_value)))'])

contract(ENG, props=['C03'], name='engine', blocks_only=True,
         blocks={'memmap_line': MEMMAP_BODY, 'window': WINDOW},
         loops={'4.0': MEMMAP_INNER, '5': WINDOW_INV})
