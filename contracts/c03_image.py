"""C03 - the binary image is a faithful window onto the assembled memory map (engine blocks after the second pass)."""
from pyvc.registry import contract, spec
from . import common, c02_lines_abs, c02_engine  # noqa
from .c02_engine import ENG

TAKE = '(is_bytes_line(lobj) and not lobj._is_muted)'
A_ = 'a_of(lobj)'
NB = 'len(lobj._bytes)'
INR = f'({TAKE} and {A_} <= a and a < {A_} + {NB})'

# one line's contribution to the address -> byte map
MEMMAP_BODY = dict(
    where='loop[@for lobj in compilable_line_obs#2|4].body', locals={'lobj': 'LineObject', 'memory': 'dict[int,int]'},
    requires=['addressable(lobj)', 'self._verbose <= 2'],
    ensures=[
        # exactly the addresses of this line's bytes are added -- and only if the line is an unmuted byte line
        f'forall(lambda a: (a in memory) == (old(a in memory) or {INR}))',
        f'forall(lambda a: implies({INR}, mapping(memory)[a] == elems(lobj._bytes)[a - {A_}]))',
        f'forall(lambda a: implies(not {INR}, mapping(memory)[a] == old(mapping(memory))[a]))',
    ],
    modifies=['memory[*]'])
MEMMAP_INNER = dict(
    idx='t', modifies=['memory[*]'], types={'offset': 'int', 'byte_value': 'int'},
    inv=['t <= len(line_bytes)', 'line_bytes is lobj._bytes', 'addressable(lobj)',
         f'forall(lambda a: (a in memory) == (entry(a in memory) or ({A_} <= a and a < {A_} + t)))',
         f'forall(lambda a: implies({A_} <= a and a < {A_} + t, mapping(memory)[a] == elems(lobj._bytes)[a - {A_}]))',
         f'forall(lambda a: implies(not ({A_} <= a and a < {A_} + t), mapping(memory)[a] == entry(mapping(memory))[a]))'])


@spec
def cell(memory, a, fill):
    """what the image shows at address a: the assembled byte, or the fill value where no byte was assembled"""
    if a in memory:
        return mapping(memory)[a]
    return fill


START = 'self._binary_start'
WINDOW = dict(
    where='span(@for lobj in compilable_line_obs#2|4:@for addr in range(self._binary_start#0|5]', locals={'memory': 'dict[int,int]', 'bytecode': 'bytearray', 'last_address': 'int', 'addr': 'int'},
    requires=['len(bytecode) == 0', '0 <= self._binary_fill_value and self._binary_fill_value <= 255',
              'forall(lambda a: implies(a in memory, 0 <= mapping(memory)[a] and mapping(memory)[a] <= 255))'],
    ensures=[
        # an explicit window [start, end] has length end - start + 1 (empty if end < start)
        f'implies(self._binary_end is not None, last_address == value_of(self._binary_end))',
        # with no end given the window ends at the highest address that received an emitted byte
        'implies(self._binary_end is None, forall(lambda a: implies(a in memory, a <= last_address)))',
        f'implies(self._binary_end is None, (last_address in memory) or last_address == {START} - 1)',
        f'len(bytecode) == ite(last_address >= {START}, last_address - {START} + 1, 0)',
        # offset a - start holds the byte assembled for address a, the fill value where none was; nothing else
        f'forall(lambda a: implies({START} <= a and a <= last_address,'
        f' elems(bytecode)[a - {START}] == cell(memory, a, self._binary_fill_value)))',
    ],
    modifies=['bytecode[*]'])
WINDOW_INV = dict(
    idx='i', modifies=['bytecode[*]'],
    inv=['len(bytecode) == i',
         f'forall(lambda j: implies(0 <= j and j < i, elems(bytecode)[j] == cell(memory, {START} + j, self._binary_fill_value)))'])

contract(ENG, props=['C03', 'C16'], name='engine', blocks_only=True,
         blocks={'memmap_line': MEMMAP_BODY, 'window': WINDOW},
         loops={'@for lobj in compilable_line_obs#2/0|4.0': MEMMAP_INNER, '@for addr in range(self._binary_start#0|5': WINDOW_INV})

# ---- the window parameters reach the engine as given on the command line ------------------------------------------
AM = 'bespokeasm.assembler.model:AssemblerModel.__init__'
contract(AM, props=['C03'], assumed=True, reason='ISA model construction (YAML loading, validation) is the subject of C19',
         params={'config_file_path': 'str', 'is_verbose': 'int'}, may_raise={'SystemExit': 'True'}, modifies=[],
         no_frame_check=True)

contract('bespokeasm.assembler.engine:Assembler.__init__', props=['C03', 'C17', 'C09', 'C15'],
         params={'binary_end': 'int?', 'include_paths': 'list[str]', 'predefined': 'list[str]'},
         may_raise={'SystemExit': 'True'},
         ensures=['self._binary_start == binary_start', 'self._binary_end == binary_end',
                  # the fill value is a byte
                  'self._binary_fill_value == binary_fill_value % 256',
                  'self._generate_binary == generate_binary', 'self._output_file == output_file',
                  # the search directories, the -D symbols and the file names are the ones given (C17: where includes are
                  # looked up; C09: which symbols are predefined; C15: nothing of the environment is mixed in)
                  'self._include_paths is include_paths', 'self._predefined_symbols is predefined',
                  'self._source_file == source_file', 'self._config_file == config_file'],
         modifies=['self._source_file', 'self._output_file', 'self._config_file', 'self._generate_binary',
                   'self._enable_pretty_print', 'self._pretty_print_format', 'self._pretty_print_output',
                   'self._binary_fill_value', 'self._verbose', 'self._binary_start', 'self._binary_end', 'self._model',
                   'self._include_paths', 'self._predefined_symbols'], allocates=True)

contract(ENG, props=['C03'], name='assumed:assemble_bytecode', assumed=True,
         reason='used only as the callee of the CLI entry point; its kernels are verified as blocks',
         may_raise={'SystemExit': 'True', 'ValueError': 'True'}, modifies=[], no_frame_check=True)

contract('bespokeasm.__main__:compile', props=['C03', 'C14'],
         params={'asm_file': 'str', 'config_file': 'str', 'binary': 'bool', 'output_file': 'str?',
                 'binary_min_address': 'int', 'binary_max_address': 'int', 'binary_fill': 'int', 'pretty_print': 'bool',
                 'pretty_print_format': 'str', 'pretty_print_output': 'str', 'verbose': 'int',
                 'include_path': 'list[str]', 'macro_symbol': 'list[str]'},
         may_raise={'SystemExit': 'True', 'ValueError': 'True'},
         ensures=[  # -s N starts the window at N; -e N (N >= 0) ends it at N, an absent / negative -e means "no end given"
             'asm._binary_start == binary_min_address',
             'implies(binary_max_address >= 0, asm._binary_end is not None and value_of(asm._binary_end) == binary_max_address)',
             'implies(binary_max_address < 0, asm._binary_end is None)',
             'asm._binary_fill_value == binary_fill % 256', 'asm._generate_binary == binary'],
         modifies=[], allocates=True, no_frame_check=True)
