"""C02 / C11 / C04 - line objects: address placement, reserved size == emitted size, directive bytes."""
from pyvc.registry import contract, spec
from . import common, abstract_expr  # noqa

LO = 'bespokeasm.assembler.line_object'

# ---- address placement -------------------------------------------------------------------------------
contract(LO + ':LineObject.set_start_address', props=['C02'],
         ensures=['self._address == address'], modifies=['self._address'], params={'address': 'int'})

PA = LO + '.directive_line.page_align:PageAlignLine.set_start_address'


@spec
def page_of(line, scope):
    """the page size in force: the configured number, or the value of the directive's expression"""
    if typeis_union_ref(line._page_size):
        return xval(union_ref(line._page_size), scope)
    return union_int(line._page_size)


contract(PA, props=['C02'],
         requires=['implies(not typeis_union_ref(self._page_size), union_is_int(self._page_size))',
                   'page_of(self, self._label_scope) >= 1', 'address >= 0'],
         may_raise={'SystemExit': 'typeis_union_ref(self._page_size) and xfails(union_ref(self._page_size), self._label_scope)'},
         ensures=[  # the smallest multiple of the page size that is not below the current address
             'value_of(self._address) % old(page_of(self, self._label_scope)) == 0',
             'value_of(self._address) >= address',
             'value_of(self._address) - address < old(page_of(self, self._label_scope))',
             'self._address is not None'],
         modifies=['self._address', 'self._page_size'], params={'address': 'int'})

LL = LO + '.label_line:LabelLine'
contract(LL + '.is_constant', props=['C02', 'C06'],
         ensures=['result == (self._value is not None)'], modifies=[])
contract(LL + '.get_value', props=['C02', 'C06'], returns='int?',
         ensures=['implies(self._value is not None, result == self._value)',
                  'implies(self._value is None, result == self._address)'], modifies=[])
contract(LL + '.get_label', props=['C02', 'C06'], ensures=['result == self._label'], modifies=[])

# ---- fills ----------------------------------------------------------------------------------------------
FD = LO + '.directive_line.fill_data:FillDataLine'
CNT = 'xval(self._count_expr, self._label_scope)'
VAL = 'xval(self._value_expr, self._label_scope)'


@spec
def fill_count(line):
    """the count a .fill line uses: evaluated once, then remembered"""
    if line._count is not None:
        return value_of(line._count)
    return xval(line._count_expr, line._label_scope)


@spec
def fill_value(line):
    if line._value is not None:
        return value_of(line._value)
    return xval(line._value_expr, line._label_scope)


COUNT_INV = 'self._count is None or value_of(self._count) >= 0'     # established by every assignment to _count
COUNT_REJECT = f'self._count is None and (xfails(self._count_expr, self._label_scope) or {CNT} < 0)'
contract(FD + '.byte_size', props=['C02', 'C11', 'C14'],
         requires=[COUNT_INV],
         raises={'SystemExit': COUNT_REJECT},
         ensures=['result == old(fill_count(self))', 'self._count is not None', 'value_of(self._count) == result',
                  # the space reserved for a line is never negative (C02: emitted == reserved; C14: image loop progress)
                  'result >= 0'],
         modifies=['self._count'])

contract(FD + '.generate_bytes', props=['C02', 'C11', 'C14'],
         requires=['len(self._bytes) == 0', COUNT_INV],
         raises={'SystemExit': f'({COUNT_REJECT})'
                               ' or (self._value is None and xfails(self._value_expr, self._label_scope))'},
         ensures=['len(self._bytes) == old(fill_count(self))',      # emitted == reserved
                  'forall(lambda j: implies(0 <= j and j < len(self._bytes), '
                  'elems(self._bytes)[j] == old(fill_value(self)) % 256))',   # n copies of the low byte of v
                  'value_of(self._count) == old(fill_count(self))'],
         modifies=['self._count', 'self._value', 'self._bytes[*]'], allocates=True)

FU = LO + '.directive_line.fill_data:FillUntilDataLine'


@spec
def until_addr(line):
    if line._fill_until_addr is not None:
        return value_of(line._fill_until_addr)
    return xval(line._fill_until_addr_expr, line._label_scope)


@spec
def until_size(line):
    """zeros up to and including the target address; nothing if the address is already past it"""
    if until_addr(line) >= value_of(line._address):
        return until_addr(line) - value_of(line._address) + 1
    return 0


contract(FU + '.byte_size', props=['C02', 'C11', 'C14'],
         requires=['self._address is not None'],
         raises={'SystemExit': 'self._fill_until_addr is None and xfails(self._fill_until_addr_expr, self._label_scope)'},
         ensures=['result == old(until_size(self))', 'result >= 0', 'self._fill_until_addr is not None',
                  'value_of(self._fill_until_addr) == old(until_addr(self))'],
         modifies=['self._fill_until_addr'])

contract(FU + '.generate_bytes', props=['C02', 'C11', 'C14'],
         requires=['self._address is not None', 'len(self._bytes) == 0'],
         raises={'SystemExit': '(self._fill_until_addr is None and xfails(self._fill_until_addr_expr, self._label_scope))'
                               ' or (self._fill_value is None and xfails(self._fill_value_expr, self._label_scope))'},
         ensures=['len(self._bytes) == old(until_size(self))',
                  'forall(lambda j: implies(0 <= j and j < len(self._bytes), elems(self._bytes)[j] == '
                  'old(ite(self._fill_value is not None, value_of(self._fill_value), '
                  'xval(self._fill_value_expr, self._label_scope))) % 256))'],
         modifies=['self._fill_until_addr', 'self._fill_value', 'self._bytes[*]', 'self._count'], allocates=True)

# ---- predefined data blocks -------------------------------------------------------------------------
PD = LO + '.predefined_data:PredefinedDataLine'
contract(PD + '.byte_size', props=['C02', 'C04', 'C03'], ensures=['result == self._byte_length'], modifies=[])
contract(PD + '.generate_bytes', props=['C02', 'C04', 'C03', 'C11'],
         requires=['len(self._bytes) == 0', 'self._byte_length >= 0'],
         ensures=['len(self._bytes) == self._byte_length',
                  'forall(lambda j: implies(0 <= j and j < len(self._bytes), elems(self._bytes)[j] == self._byte_value % 256))'],
         modifies=['self._bytes[*]'], allocates=True)

# ---- embedded strings ----------------------------------------------------------------------------------
ES = LO + '.emdedded_string:EmbeddedString'
contract(ES + '.byte_size', props=['C02', 'C11'], ensures=['result == len(self._string_bytes)'], modifies=[])
contract(ES + '.generate_bytes', props=['C02', 'C11'],
         requires=['len(self._bytes) == 0'],
         raises={'ValueError': 'exists(lambda j: 0 <= j and j < len(self._string_bytes) and '
                               '(elems(self._string_bytes)[j] < 0 or elems(self._string_bytes)[j] > 255))'},
         ensures=['len(self._bytes) == len(self._string_bytes)',
                  'forall(lambda j: implies(0 <= j and j < len(self._bytes), elems(self._bytes)[j] == elems(self._string_bytes)[j]))'],
         modifies=['self._bytes[*]'])

# ---- LineWithBytes ------------------------------------------------------------------------------------------
contract(LO + ':LineWithBytes.get_bytes', props=['C02', 'C03', 'C04', 'C16'],
         ensures=['result is self._bytes'], modifies=[])
contract(LO + ':LineWithBytes._append_byte', props=['C11'],
         ensures=['len(self._bytes) == old(len(self._bytes)) + 1',
                  'elems(self._bytes)[old(len(self._bytes))] == byte_value % 256',
                  'forall(lambda j: implies(0 <= j and j < old(len(self._bytes)), elems(self._bytes)[j] == old(elems(self._bytes))[j]))'],
         modifies=['self._bytes[*]'])
