"""C17 - including a file: fresh file scope under the global scope, includer state untouched, duplicates / missing /
ambiguous files rejected, includes obey the conditional state like any other line."""
from pyvc.registry import contract, spec, declare_fields, lemma
from . import common, c06_scopes, c08_conditionals, c15_determinism  # noqa

AF = 'bespokeasm.assembler.assembly_file:AssemblyFile'
LS = 'bespokeasm.assembler.label_scope:LabelScope'
ENG = 'bespokeasm.assembler.engine:Assembler.assemble_bytecode'

contract(LS + '.__init__', props=['C17', 'C06'], params={'parent': 'LabelScope?'},
         ensures=['self._type == scope_type', 'self._parent is parent', 'self._reference == scope_reference',
                  'domain_empty(self._labels)', 'fresh(self._labels)'],
         modifies=['self._type', 'self._parent', 'self._reference', 'self._labels'], allocates=True)

# every file gets a scope of its own, directly under the scope it is given (the global scope for the main file)
contract(AF + '.__init__', props=['C17', 'C06'], params={'parent_label_scope': 'LabelScope?'},
         ensures=['self._filename == filename', 'fresh(self._label_scope)',
                  'self._label_scope._type == LabelScopeType.FILE', 'self._label_scope._parent is parent_label_scope',
                  'domain_empty(self._label_scope._labels)'],
         modifies=['self._filename', 'self._label_scope'], allocates=True)


@spec(uninterpreted=True, sig=['list[LineObject]', 'AssemblyFile?'], heap_reads=[])
def loaded_from(lines):
    """the AssemblyFile object whose load_line_objects produced this list (ghost)"""


@spec(uninterpreted=True, sig=['list[LineObject]', 'ConditionStack?'], heap_reads=[])
def loaded_under(lines):
    """the condition stack (selected branches, mute state) under which this list of lines was loaded (ghost)"""


LOAD_PARAMS = {'include_paths': 'set[str]', 'assembly_files_used': 'set[str]', 'condition_stack': 'ConditionStack?'}
contract(AF + '.load_line_objects', name='abs:AssemblyFile.load_line_objects', props=['C17'], assumed=True,
         reason='reads the file (I/O outside the subset); its per-line body is verified as the block `line`; here only: '
                'the list is tagged with the file object that produced it and the file is registered as used',
         params=LOAD_PARAMS, returns='list[LineObject]',
         may_raise={'SystemExit': 'True'},
         ensures=['fresh(result)', 'loaded_from(result) is self', 'loaded_under(result) is condition_stack',
                  'self._filename in assembly_files_used',
                  'implies(condition_stack is not None, cs_wf(condition_stack))'],
         requires=['implies(condition_stack is not None, cs_wf(condition_stack))'],
         modifies=['assembly_files_used[*]', 'condition_stack._stack[*]', 'condition_stack._selected[*]',
                   'condition_stack._taken[*]', 'condition_stack._mute_counter', 'preprocessor._symbols[*]',
                   'memzone_manager._zones[*]'],
         allocates=True, no_frame_check=True)

INC_PARAMS = dict(LOAD_PARAMS, line_str='str')
contract(AF + '._handle_include_file', props=['C17', 'C06', 'C03', 'C08'], params=INC_PARAMS, returns='list[LineObject]',
         requires=['allocated(self._label_scope)', 'implies(condition_stack is not None, cs_wf(condition_stack))'],
         # (AttributeError: the regular expression is opaque here, so group(1) of a match is not known to be present)
         may_raise={'SystemExit': 'True', 'AttributeError': 'True'},
         ensures=[
             # the included text is loaded by a new file object ...
             'loaded_from(result) is not None and fresh(value_of(loaded_from(result)))',
             # ... whose scope is a fresh FILE scope directly under the includer's parent (the global scope): neither
             # file sees the other's file-scoped labels
             'value_of(loaded_from(result))._label_scope._type == LabelScopeType.FILE',
             'value_of(loaded_from(result))._label_scope._parent is old(self._label_scope._parent)',
             'value_of(loaded_from(result))._label_scope is not self._label_scope',
             # a file is loaded at most once: it was not in the used set before and is in it now
             'not (value_of(loaded_from(result))._filename in old(members(assembly_files_used)))',
             'value_of(loaded_from(result))._filename in assembly_files_used',
             # and it is the unique match of the name in the search directories
             'path_exists(value_of(loaded_from(result))._filename)',
             # the included lines are read under the includer's own condition stack: its selected branches and its mute
             # state continue into the file and whatever the file changes continues after it (text pasted in place)
             'loaded_under(result) is condition_stack',
             'implies(condition_stack is not None, cs_wf(condition_stack))'],
         modifies=['assembly_files_used[*]', 'condition_stack._stack[*]', 'condition_stack._selected[*]',
                   'condition_stack._taken[*]', 'condition_stack._mute_counter', 'preprocessor._symbols[*]',
                   'memzone_manager._zones[*]'],
         allocates=True, no_frame_check=True)

# ---- the per-line body of load_line_objects ---------------------------------------------------------------------------
LOF = 'bespokeasm.assembler.line_object.factory:LineOjectFactory.parse_line'
WIDE = ['assembly_files_used[*]', 'condition_stack._stack[*]', 'condition_stack._selected[*]', 'condition_stack._taken[*]',
        'condition_stack._mute_counter', 'preprocessor._symbols[*]', 'memzone_manager._zones[*]']
contract(LOF, props=['C17'], assumed=True,
         reason='turns one source line into line objects (regex based); its effects on the preprocessor state are listed',
         params={'cls': 'opaque', 'label_scope': 'LabelScope', 'current_memzone': 'MemoryZone'},
         returns='list[LineObject]', may_raise={'SystemExit': 'True', 'ValueError': 'True', 'KeyError': 'True'},
         ensures=['fresh(result)', 'cs_wf(condition_stack)'], requires=['cs_wf(condition_stack)'],
         modifies=WIDE[1:], allocates=True, no_frame_check=True)

IS_INCLUDE = 'str_strip(line).startswith("#include") and len(str_strip(line)) > 0'
ACTIVE = 'all_selected(condition_stack, len(condition_stack._selected))'
SCOPE_STEP = ('(current_scope is {e}(current_scope) or current_scope is self._label_scope'
              ' or (fresh(current_scope) and current_scope._type == LabelScopeType.LOCAL'
              ' and current_scope._parent is self._label_scope))')
contract(AF + '.load_line_objects', props=['C17', 'C06', 'C05', 'C08', 'C02'], blocks_only=True,
         params=dict(LOAD_PARAMS, condition_stack='ConditionStack'),
         locals={'line_objects': 'list[LineObject]', 'line_num': 'int', 'current_scope': 'LabelScope',
                 'current_memzone': 'MemoryZone', 'line': 'str', 'lobj_list': 'list[LineObject]'},
         blocks={'line': dict(
             where='loop[0].body', locals={},
             # (C08 uses this block only for "an include in an unselected branch loads nothing"; C05 / C06 not for that)
             skip_for={'C08': ['block[line]/ensures[2]', 'block[line]/ensures[4]'],
                       'C05': ['block[line]/ensures[3]', 'block[line]/ensures[4]'], 'C06': ['block[line]/ensures[3]']},
             requires=['cs_wf(condition_stack)', 'allocated(self._label_scope)', 'allocated(current_scope)',
                       'line_objects is not lobj_list', 'line_objects is not condition_stack._stack', 'allocated(line_objects)',
                       'scope_wf(current_scope)', 'scope_wf(self._label_scope)',
                       'self._label_scope._type == LabelScopeType.FILE',
                       'implies(self._label_scope._parent is not None, allocated(self._label_scope._parent))'],
             may_raise={'SystemExit': 'True', 'ValueError': 'True', 'KeyError': 'True', 'AttributeError': 'True'},
             ensures=[
                 # whatever the line is, the objects already collected stay where they are: new ones are appended in place
                 'len(line_objects) >= old(len(line_objects))',
                 'forall(lambda j: implies(0 <= j and j < old(len(line_objects)),'
                 ' elems(line_objects)[j] is old(elems(line_objects))[j]))',
                 # an include leaves the includer's local-label region and selected zone as they were
                 f'implies({IS_INCLUDE}, current_scope is old(current_scope) and current_memzone is old(current_memzone))',
                 # and in an unselected branch it loads nothing at all
                 f'implies({IS_INCLUDE} and not old({ACTIVE}), len(line_objects) == old(len(line_objects))'
                 ' and forall(lambda s: (s in assembly_files_used) == old(s in assembly_files_used), types={"s": "str"}))',
                 # an ordinary line keeps the region, returns to the file scope, or opens a new region under the file scope
                 SCOPE_STEP.format(e='old'), 'scope_wf(current_scope)', 'cs_wf(condition_stack)'],
             modifies=WIDE + ['line_objects[*]', '*._compilable:LineObject', '*._is_muted:LineObject',
                              '*._label_scope:LineObject', 'all-dicts:dict[str,LabelInfo]'],
             allocates=True),
             # one parsed line object: what it does to the local-label region, the selected zone and the label tables
             'lobj': dict(
                 where='loop[0.0].body', locals={'lobj': 'LineObject'}, props=['C06', 'C08', 'C02', 'C05'],
                 requires=['cs_wf(condition_stack)', 'allocated(self._label_scope)',
                           'allocated(current_scope)', 'allocated(line_objects)', 'line_objects is not lobj_list',
                           'line_objects is not condition_stack._stack',
                           'scope_wf(current_scope)', 'scope_wf(self._label_scope)',
                           'self._label_scope._type == LabelScopeType.FILE',
                           'implies(self._label_scope._parent is not None, allocated(self._label_scope._parent))'],
                 may_raise={'SystemExit': 'True', 'ValueError': 'True', 'KeyError': 'True', 'AttributeError': 'True'},
                 ensures=[
                     # C08: a line of an unselected branch changes neither the region nor the zone, and defines nothing
                     'implies(not lobj._compilable, current_scope is old(current_scope)'
                     ' and current_memzone is old(current_memzone))',
                     'implies(not lobj._compilable and isa(lobj, "LabelLine"),'
                     ' has(target(old(current_scope), kind_of(lobj._label)), lobj._label)'
                     ' == old(has(target(current_scope, kind_of(lobj._label)), lobj._label)))',
                     # C06: every address label that is not itself local -- global or file label -- opens a new local region
                     'implies(lobj._compilable and isa(lobj, "LabelLine") and lobj._value is None'
                     ' and kind_of(lobj._label) != 2, fresh(current_scope) and current_scope._type == LabelScopeType.LOCAL'
                     ' and current_scope._parent is self._label_scope and current_memzone is old(current_memzone))',
                     # C06 / C05 / C02: an origin or zone directive closes the region and selects its zone
                     'implies(lobj._compilable and isa(lobj, "SetMemoryZoneLine"),'
                     ' current_scope is self._label_scope and current_memzone is lobj._memzone)',
                     # anything else leaves both as they are
                     'implies(lobj._compilable and not isa(lobj, "SetMemoryZoneLine") and not (isa(lobj, "LabelLine")'
                     ' and lobj._value is None and kind_of(lobj._label) != 2),'
                     ' current_scope is old(current_scope) and current_memzone is old(current_memzone))',
                     # the line is resolved in the region it stands in; a constant is defined there right away
                     'implies(lobj._compilable, lobj._label_scope is current_scope)',
                     'implies(lobj._compilable and isa(lobj, "LabelLine") and lobj._value is not None,'
                     ' has(target(current_scope, kind_of(lobj._label)), lobj._label))',
                     'len(line_objects) == old(len(line_objects)) + 1',
                     'elems(line_objects)[old(len(line_objects))] is lobj',
                     'forall(lambda j: implies(0 <= j and j < old(len(line_objects)),'
                     ' elems(line_objects)[j] is old(elems(line_objects))[j]))',
                     'scope_wf(current_scope)', 'cs_wf(condition_stack)', 'allocated(current_scope)'],
                 modifies=['line_objects[*]', 'lobj._compilable', 'lobj._is_muted', 'lobj._label_scope',
                           'all-dicts:dict[str,LabelInfo]'],
                 allocates=True),
             # every file -- included or not -- starts in its own file scope and in the GLOBAL zone
             'start-scope': dict(where='from:current_scope = self.label_scope:1', locals={}, requires=[],
                                 ensures=['current_scope is self._label_scope'], modifies=[]),
             'register': dict(where='from:assembly_files_used.add(self.filename):1', locals={}, requires=[],
                              # a loaded file is recorded, so a second include of it is rejected (_handle_include_file)
                              ensures=['self._filename in assembly_files_used',
                                       'forall(lambda s: implies(old(s in assembly_files_used), s in assembly_files_used),'
                                       ' types={"s": "str"})'],
                              modifies=['assembly_files_used[*]']),
             'start-zone': dict(where='from:current_memzone = memzone_manager.global_zone:1', locals={},
                                requires=[], may_raise={'KeyError': 'True'},
                                ensures=['current_memzone is mapping(memzone_manager._zones)["GLOBAL"]'], modifies=[])},
         loops={'0.0': dict(idx='m', allocates=True,
                            modifies=['line_objects[*]', '*._compilable:LineObject', '*._is_muted:LineObject',
                                      '*._label_scope:LineObject', 'all-dicts:dict[str,LabelInfo]'],
                            types={'current_scope': 'LabelScope', 'current_memzone': 'MemoryZone'},
                            inv=['m <= len(lobj_list)', 'len(line_objects) == old(len(line_objects)) + m',
                                 'forall(lambda j: implies(0 <= j and j < old(len(line_objects)),'
                                 ' elems(line_objects)[j] is old(elems(line_objects))[j]))',
                                 SCOPE_STEP.format(e='old'), 'allocated(current_scope)',
                                 'scope_wf(current_scope)', 'cs_wf(condition_stack)',
                                 'self._label_scope is old(self._label_scope)'])})

# ---- the search directories: every distinct directory is searched exactly once -----------------------------------------
@spec(rec=True, sig=['arr[str]', 'int', 'int', 'bool'])
def no_dup_upto(dirs, a, j):
    """none of the entries a+1 .. j-1 is the same directory (after resolving links) as entry a"""
    if j <= a + 1:
        return True
    return no_dup_upto(dirs, a, j - 1) and path_real(dirs[a]) != path_real(dirs[j - 1])


@spec(rec=True, sig=['arr[str]', 'int', 'int', 'int'])
def kept_before(dirs, n, a):
    """how many of the entries 0 .. a-1 are kept: those that are not listed again later"""
    if a <= 0:
        return 0
    return kept_before(dirs, n, a - 1) + ite(no_dup_upto(dirs, a - 1, n), 1, 0)


# an entry that is listed again later has a later duplicate whatever the length considered (induction on n)
lemma('dup_found', vars={'d': 'arr[str]', 'a': 'int', 'b': 'int', 'n': 'int'},
      hyps=['0 <= a', 'a < b', 'b < n', 'path_real(d[a]) == path_real(d[b])'], concl=['not no_dup_upto(d, a, n)'],
      by='induction', induct='n', triggers=[['no_dup_upto(d, a, n)', 'path_real(d[b])']], props=['C17'])

D_ = 'elems(include_dirs)'
N_ = 'len(include_dirs)'
# the list searched is exactly the entries without a later duplicate, in order, each as its resolved path
SEARCHED = ('len(deduplicated_dirs) == kept_before(' + D_ + ', ' + N_ + ', {n}) and '
            'forall(lambda a: implies(0 <= a and a < {n} and no_dup_upto(' + D_ + ', a, ' + N_ + '), '
            'elems(deduplicated_dirs)[kept_before(' + D_ + ', ' + N_ + ', a)] == path_real(' + D_ + '[a])))')
contract(ENG, props=['C17'], name='engine-include-dirs', blocks_only=True,
         locals={'include_dirs': 'list[str]', 'deduplicated_dirs': 'list[str]', 'is_duplicate': 'bool',
                 'left_path': 'str', 'right_path': 'str'},
         blocks={'dedup': dict(
             where='between:include_dirs = [::include_dirs = set(', locals={},
             requires=[],
             ensures=[SEARCHED.format(n=N_)],
             modifies=['deduplicated_dirs[*]'], lemmas=['dup_found'])},
         lemmas=['dup_found'],
         loops={'@for i in range(len(#0': dict(idx='ci', modifies=['deduplicated_dirs[*]'],
                          inv=['ci <= ' + N_, SEARCHED.format(n='ci'),
                               'forall(lambda a: implies(0 <= a and a < ci and no_dup_upto(' + D_ + ', a, ' + N_ + '), '
                               'kept_before(' + D_ + ', ' + N_ + ', a) < kept_before(' + D_ + ', ' + N_ + ', ci)))',
                               'kept_before(' + D_ + ', ' + N_ + ', ci) >= 0']),
                '@for i in range(len(#0/0': dict(idx='cj',
                            inv=['i + 1 + cj <= ' + N_ + ' or cj == 0', 'not is_duplicate',
                                 'left_path == path_real(' + D_ + '[i])',
                                 'no_dup_upto(' + D_ + ', i, i + 1 + cj)'])})
