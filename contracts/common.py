"""Field type declarations shared by all properties (what the repository's annotations say, made explicit)."""
from pyvc.registry import declare_fields

declare_fields('MemoryZone', _address_bits='int', _start='int', _end='int', _name='str', _current_address='int')
declare_fields('MemoryZoneManager', _address_bits='int', _zones='dict[str,MemoryZone]')
