"""Field type declarations shared by all properties (what the repository's annotations say, made explicit)."""
from pyvc.registry import declare_fields

declare_fields('MemoryZone', _address_bits='int', _start='int', _end='int', _name='str', _current_address='int')
declare_fields('MemoryZoneManager', _address_bits='int', _zones='dict[str,MemoryZone]')

# ---- byte code parts ------------------------------------------------------------------------------
declare_fields('ByteCodePart', _value_size='int', _byte_align='bool', _endian='str', _line_id='LineIdentifier')
declare_fields('NumericByteCodePart', _value='int')
declare_fields('ExpressionByteCodePart', _expression='str', _parsed_expression='ExpressionNode')
declare_fields('ExpressionByteCodePartWithValidation', _max='int?', _min='int?')
declare_fields('ExpressionByteCodePartInMemoryZone', _memzone='MemoryZone?')
declare_fields('ExpressionEnumerationByteCodePart', _value_dict='dict[int,int]')
declare_fields('CompositeByteCodePart', _parts_list='list[ByteCodePart]')
declare_fields('RelativeAddressByteCodePart', _min_relative_value='int?', _max_relative_value='int?',
               _offset_from_instruction_end='bool')
declare_fields('AddressByteCodePart', _is_lsb_bytes='bool', _match_address_msb='bool')
declare_fields('LineIdentifier', _filename='str?', _line_num='int')

# ---- expressions / label scopes ---------------------------------------------------------------------
declare_fields('ExpressionNode', token_type='TokenType', left_child='ExpressionNode?', right_child='ExpressionNode?',
               _is_unary='bool')
declare_fields('LabelScope', _type='LabelScopeType', _parent='LabelScope?', _reference='str',
               _labels='dict[str,LabelInfo]')
declare_fields('LabelInfo', _label='str', _value='int', _line_id='LineIdentifier')
declare_fields('GlobalLabelScope', _register_labels='set[str]')

declare_fields('PackedBits', _bytes='bytearray', _cur_byte_idx='int', _cur_bit_idx='int')
declare_fields('AssembledInstruction', _parts='list[ByteCodePart]', _line_id='LineIdentifier', _byte_size='int')
declare_fields('CompositeAssembledInstruction', _instructions='list[AssembledInstruction]')
