"""Field type declarations shared by all properties (what the repository's annotations say, made explicit)."""
from pyvc.registry import declare_fields

declare_fields('MemoryZone', _address_bits='int', _start='int', _end='int', _name='str', _current_address='int')
declare_fields('MemoryZoneManager', _address_bits='int', _zones='dict[str,MemoryZone]')

# ---- byte code parts ------------------------------------------------------------------------------
declare_fields('ByteCodePart', _value_size='int', _byte_align='bool', _endian='str', _line_id='LineIdentifier')
declare_fields('NumericByteCodePart', _value='int')
declare_fields('ExpressionByteCodePart', _expression='str', _parsed_expression='ExpressionNode')
declare_fields('ExpressionByteCodePartWithValidation', _max='int?', _min='int?')
declare_fields('ExpressionByteCodePartInMemoryZone', _memzone='MemoryZone?')
declare_fields('ExpressionEnumerationByteCodePart', _value_dict='dict[int,int]')
declare_fields('CompositeByteCodePart', _parts_list='list[ByteCodePart]')
declare_fields('RelativeAddressByteCodePart', _min_relative_value='int?', _max_relative_value='int?',
               _offset_from_instruction_end='bool')
declare_fields('AddressByteCodePart', _is_lsb_bytes='bool', _match_address_msb='bool')
declare_fields('LineIdentifier', _filename='str?', _line_num='int')

# ---- expressions / label scopes ---------------------------------------------------------------------
declare_fields('ExpressionNode', token_type='TokenType', left_child='ExpressionNode?', right_child='ExpressionNode?',
               _is_unary='bool')
declare_fields('LabelScope', _type='LabelScopeType', _parent='LabelScope?', _reference='str',
               _labels='dict[str,LabelInfo]')
declare_fields('LabelInfo', _label='str', _value='int', _line_id='LineIdentifier')
declare_fields('GlobalLabelScope', _register_labels='set[str]')

declare_fields('PackedBits', _bytes='bytearray', _cur_byte_idx='int', _cur_bit_idx='int')
declare_fields('AssembledInstruction', _parts='list[ByteCodePart]', _line_id='LineIdentifier', _byte_size='int')
declare_fields('CompositeAssembledInstruction', _instructions='list[AssembledInstruction]')

# ---- line objects -------------------------------------------------------------------------------------
declare_fields('LineObject', _line_id='LineIdentifier', _instruction='str', _comment='str', _address='int?',
               _label_scope='LabelScope?', _memzone='MemoryZone', _compilable='bool', _is_muted='bool')
declare_fields('LineWithBytes', _bytes='bytearray')
declare_fields('LabelLine', _label='str', _value='int?')
declare_fields('SetMemoryZoneLine', _memzone_manager='MemoryZoneManager', _name='str')
declare_fields('AddressOrgLine', _parsed_memzone_name='str?', _address_expr='ExpressionNode')
declare_fields('PageAlignLine', _page_size='union[ExpressionNode]')
declare_fields('FillDataLine', _count_expr='ExpressionNode', _value_expr='ExpressionNode', _count='int?', _value='int?')
declare_fields('FillUntilDataLine', _fill_until_addr_expr='ExpressionNode', _fill_value_expr='ExpressionNode',
               _fill_until_addr='int?', _fill_value='int?')
declare_fields('PredefinedDataLine', _byte_length='int', _byte_value='int')
declare_fields('EmbeddedString', _string_bytes='list[int]')
declare_fields('DataLine', _arg_value_list='list[union]', _directive='str', _endian='str')
declare_fields('InstructionLine', _assembled_instruction='AssembledInstruction')

declare_fields('Assembler', _source_file='str', _output_file='str', _config_file='str', _generate_binary='bool',
               _enable_pretty_print='bool', _pretty_print_format='str', _pretty_print_output='str',
               _binary_fill_value='int', _verbose='int', _binary_start='int', _binary_end='int?',
               _model='AssemblerModel', _include_paths='list[str]', _predefined_symbols='list[str]')

declare_fields('AssemblerModel', _config_file='str', _global_label_scope='LabelScope?', _config='cfg', _isa_name='str',
               _isa_version='str', _file_extension='str', _registers='set[str]', _operand_sets='OperandSetCollection',
               _instructions='InstructionSet')
declare_fields('Operand', _id='str', _config='cfg', _default_endian='str')
declare_fields('OperandParser', _config='cfg', _specific_operands_model='SpecificOperandsModel?',
               _operand_sets_model='OperandSetsModel?')
declare_fields('OperandSetsModel', _config='cfg', _operand_sets='list[OperandSet]')
declare_fields('SpecificOperandsModel', _specific_operands='list[SpecificOperandConfig]')
declare_fields('SpecificOperandConfig', _config='cfg', _operands='list[Operand]')

declare_fields('InstructionBase', _mnemonic='str', _default_endian='str', _registers='set[str]')
declare_fields('InstructionSet', _instructions_config='cfg', _macros_config='cfg?', _instruction_mnemonics='set[str]',
               _macro_mnemonics='set[str]', __dict='dict[str,InstructionBase]')

declare_fields('ExpressionNode', value='union')

declare_fields('ParsedOperand', _operand='Operand', _bytecode='ByteCodePart?', _argument='ByteCodePart?', _operand_str='str')
declare_fields('Instruction', _config='cfg', _variants='list[InstructionVariant]')
declare_fields('InstructionVariant', _variant_config='cfg', _operand_parser='OperandParser?')
declare_fields('OperandSet', _name='str', _config='cfg', _ordered_operand_list='list[Operand]')
declare_fields('MatchedOperandSet', _operands='list[ParsedOperand]', _reverse_arg_order='bool', _reverse_op_bytecode_order='bool')

# ---- preprocessor -----------------------------------------------------------------------------------------
declare_fields('ConditionStack', _stack='list[PreprocessorCondition]', _selected='list[bool]', _taken='list[bool]',
               _mute_counter='int')
declare_fields('PreprocessorCondition', _line_str='str', _line='LineIdentifier', _parent='PreprocessorCondition?')
declare_fields('IfPreprocessorCondition', _lhs_expression='str', _operator='str', _rhs_expression='str')
declare_fields('IfdefPreprocessorCondition', _is_ifndef='bool', _symbol='str')
declare_fields('Preprocessor', _symbols='dict[str,PreprocessorSymbol]')
declare_fields('PreprocessorSymbol', _name='str', _value='str', _line_id='LineIdentifier?')
declare_fields('ConditionLine', _condition='PreprocessorCondition')
declare_fields('DefineSymbolLine', _symbol='PreprocessorSymbol')
declare_fields('InstructionMacroVariant', _variant_config='cfg', _operand_parser='OperandParser?', _variant_num='int')
declare_fields('InstructionMacro', _config='cfg', _variants='list[InstructionMacroVariant]')
declare_fields('OperandSetCollection', __dict='dict[str,OperandSet]')
