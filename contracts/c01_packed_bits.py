"""C01 / C12 - PackedBits: the bit-packing kernel.

A bit string of n bits is represented by the pair (n, v) with 0 <= v < 2**n (first bit = most significant);
concatenation is (n1, v1) ++ (n2, v2) = (n1 + n2, v1 * 2**n2 + v2).  That is the textbook reading of
"concatenating fields", stated with integers so that the solver reasons in linear arithmetic with div/mod.
"""
from pyvc.registry import contract, spec, lemma
from . import common  # noqa

PB = 'bespokeasm.assembler.bytecode.packed_bits:PackedBits'


@spec(rec=True, sig=['arr[int]', 'int', 'int'])
def bigend(a, n):
    """the first n bytes of a read as one big-endian number (first byte most significant)"""
    if n <= 0:
        return 0
    return 256 * bigend(a, n - 1) + a[n - 1]


@spec
def pb_nbits(pb):
    """number of bits appended so far"""
    return 8 * pb._cur_byte_idx + 7 - pb._cur_bit_idx


@spec
def pb_val(pb):
    """the bits appended so far, as a number"""
    return bigend(elems(pb._bytes), len(pb._bytes)) // 2 ** (pb._cur_bit_idx + 1)


@spec
def pb_ok(pb):
    """representation invariant: cursor consistent with the buffer, unused low bits of the last byte are 0"""
    return (len(pb._bytes) == pb._cur_byte_idx + 1 and pb._cur_byte_idx >= 0
            and -1 <= pb._cur_bit_idx and pb._cur_bit_idx <= 7
            and 0 <= elems(pb._bytes)[pb._cur_byte_idx] and elems(pb._bytes)[pb._cur_byte_idx] <= 255
            and elems(pb._bytes)[pb._cur_byte_idx] % 2 ** (pb._cur_bit_idx + 1) == 0)


@spec
def nbytes_for(bit_size):
    return (bit_size + 7) // 8


@spec
def top_bits(bit_size):
    """bits taken from the most significant byte of the field"""
    return (bit_size + 7) % 8 + 1


@spec(rec=True, sig=['int', 'int', 'int'])
def le_acc(u, j):
    """little-endian emission: the first j bytes (least significant first), as a number"""
    if j <= 0:
        return 0
    return le_acc(u, j - 1) * 256 + (u // 2 ** (8 * (j - 1))) % 256


@spec(rec=True, sig=['int', 'int', 'int', 'int', 'int'])
def be_acc(u, nb, top, j):
    """big-endian emission: the first j bytes (most significant first, the first one contributing its low `top` bits)"""
    if j <= 0:
        return 0
    if j == 1:
        return (u // 2 ** (8 * (nb - 1))) % 2 ** top
    return be_acc(u, nb, top, j - 1) * 256 + (u // 2 ** (8 * (nb - j))) % 256


@spec
def field_bits(value, bit_size, endian):
    """the bit_size-bit string a field contributes, as a number.
       big: the low bit_size bits of the value, most significant first.
       little: the bytes of the ceil(bit_size/8)-byte value least significant byte first, the most
       significant (partial) byte last with its low ((bit_size+7)%8)+1 bits."""
    if endian == 'little':
        return (le_acc(value % 2 ** (8 * nbytes_for(bit_size)), nbytes_for(bit_size) - 1) * 2 ** top_bits(bit_size)
                + (value // 2 ** (8 * (nbytes_for(bit_size) - 1))) % 2 ** top_bits(bit_size))
    return value % 2 ** bit_size


@spec
def pad_bits(pb, byte_aligned):
    """zero bits inserted so that a byte-aligned field starts on a byte boundary"""
    if byte_aligned and pb._cur_bit_idx < 7:
        return pb._cur_bit_idx + 1
    return 0


@spec
def fits_width(v, k):
    """the value fits the signed-or-unsigned range of a k-bit field (C12: "fitting the signed-or-unsigned range of
    its field width")"""
    return -(2 ** (k - 1)) <= v and v < 2 ** k


@spec
def fits_bytes(value, nb):
    """int.to_bytes(nb, signed=(value<0)) accepts the value"""
    if value < 0:
        return value >= -(2 ** (8 * nb - 1))
    return value < 2 ** (8 * nb)


# ---- facts about CPython's | and & on small non-negative ints: complete enumeration of the finite domain ----
lemma('or_sets_clear_bit', vars={'a': 'int', 'b': 'int'},
      ranges={'a': (0, 255), 'b': (0, 128)},
      hyps=['b == 0 or (b == 1 and a % 2 == 0) or (b == 2 and a % 4 == 0) or (b == 4 and a % 8 == 0)'
            ' or (b == 8 and a % 16 == 0) or (b == 16 and a % 32 == 0) or (b == 32 and a % 64 == 0)'
            ' or (b == 64 and a % 128 == 0) or (b == 128 and a % 256 == 0)'],
      concl=['bitor(a, b) == a + b'], by='enum', triggers=['bitor(a, b)'], props=['C01', 'C12'])

# writing at or beyond index n does not change the first n bytes' value (induction on n)
lemma('bigend_frame', vars={'a': 'arr[int]', 'i': 'int', 'v': 'int', 'n': 'int'},
      hyps=['i >= n'], concl=['bigend(store(a, i, v), n) == bigend(a, n)'], by='induction', induct='n',
      triggers=['bigend(store(a, i, v), n)'], props=['C01', 'C12'])

# what int.to_bytes puts in byte j (CPython fact; trusted, validated on random samples every run)
lemma('to_bytes_def', vars={'u': 'int', 'n': 'int', 'little': 'bool', 'j': 'int'},
      ranges={'n': (1, 9), 'j': (0, 8)},
      hyps=['0 <= u and u < 2 ** (8 * n)', 'j < n'],
      concl=['tb_byte(u, n, little, j) == (u // 2 ** (8 * ite(little, j, n - 1 - j))) % 256'],
      by='axiom', triggers=['tb_byte(u, n, little, j)'], props=['C01', 'C12'])

# emitting the bytes of the ceil(k/8)-byte representation most significant first, the first byte contributing its
# low ((k+7)%8)+1 bits, yields exactly the low k bits of the value (pure arithmetic; one proof per width k)
lemma('be_acc_is_low_bits', vars={'u': 'int', 'k': 'int'},
      hyps=['0 <= u and u < 2 ** (8 * nbytes_for(k))'],
      concl=['be_acc(u, nbytes_for(k), top_bits(k), nbytes_for(k)) == u % 2 ** k'],
      by='bv', cases={'k': range(1, 65)}, ubounds={'u': lambda k: 2 ** (8 * ((k + 7) // 8)) - 1}, props=['C01', 'C12'])

contract(PB + '.__init__', props=['C01', 'C12'],
         ensures=['pb_ok(self)', 'pb_nbits(self) == 0', 'pb_val(self) == 0', 'fresh(self._bytes)', 'self._cur_bit_idx == 7'],
         modifies=['self._bytes', 'self._cur_byte_idx', 'self._cur_bit_idx'], allocates=True)

contract(PB + '.get_bytes', props=['C01', 'C12'],
         ensures=['result is self._bytes'], modifies=[])

APPEND_POST = ['pb_ok(self)', 'self._cur_bit_idx <= 6',
               'pb_nbits(self) == old(pb_nbits(self)) + old(pad_bits(self, byte_aligned)) + bit_size',
               'pb_val(self) == old(pb_val(self)) * 2 ** (old(pad_bits(self, byte_aligned)) + bit_size)'
               ' + field_bits(value, bit_size, endian)']

VB = 'value_bytes[byte_idx]'
BLOCK_LOCALS = {'value_bytes': 'bytes', 'byte_idx': 'int', 'bit_idx': 'int', 'bit_start': 'int'}
MOD = ['self._bytes[*]', 'self._cur_byte_idx', 'self._cur_bit_idx']

BLOCKS = {
    # one iteration of the inner loop: append bit `bit_idx` of the current byte
    'bit': dict(where='loop[0.0].body', locals=BLOCK_LOCALS, shards=6, props=['C01', 'C12'],
                requires=['pb_ok(self)', '0 <= bit_idx and bit_idx <= 7',
                          '0 <= byte_idx and byte_idx < len(value_bytes)'],
                ensures=['pb_ok(self)', 'self._cur_bit_idx <= 6', 'pb_nbits(self) == old(pb_nbits(self)) + 1',
                         f'pb_val(self) == 2 * old(pb_val(self)) + ({VB} // 2 ** bit_idx) % 2',
                         'self._bytes is old(self._bytes)'],
                modifies=MOD, lemmas=['bigend_frame']),
    # the inner loop: append the low bit_start+1 bits of the current byte, most significant first
    'byte': dict(where='loop[0.0]', locals=BLOCK_LOCALS, shards=10, props=['C01', 'C12'],
                 requires=['pb_ok(self)', '0 <= bit_start and bit_start <= 7',
                           '0 <= byte_idx and byte_idx < len(value_bytes)'],
                 ensures=['pb_ok(self)', 'self._cur_bit_idx <= 6', 'pb_nbits(self) == old(pb_nbits(self)) + bit_start + 1',
                          f'pb_val(self) == old(pb_val(self)) * 2 ** (bit_start + 1) + {VB} % 2 ** (bit_start + 1)',
                          'self._bytes is old(self._bytes)'],
                 modifies=MOD, lemmas=[]),
}

LOOPS = {
    '0': dict(idx='i', modifies=MOD,
              inv=['pb_ok(self)', '0 <= i and i <= len(value_bytes)', 'self._bytes is old(self._bytes)',
                   'implies(i >= 1, self._cur_bit_idx <= 6)',
                   "implies(endian == 'big', pb_nbits(self) == entry(pb_nbits(self)) + ite(i == 0, 0, top_bits(bit_size) + 8 * (i - 1)))",
                   "implies(endian == 'big', pb_val(self) == entry(pb_val(self)) * 2 ** ite(i == 0, 0, top_bits(bit_size) + 8 * (i - 1))"
                   " + be_acc(value % 2 ** (8 * len(value_bytes)), len(value_bytes), top_bits(bit_size), i))",
                   "implies(endian == 'little', pb_nbits(self) == entry(pb_nbits(self)) + ite(i == len(value_bytes), bit_size, 8 * i))",
                   "implies(endian == 'little' and i < len(value_bytes), pb_val(self) == entry(pb_val(self)) * 2 ** (8 * i)"
                   " + le_acc(value % 2 ** (8 * len(value_bytes)), i))",
                   "implies(endian == 'little' and i == len(value_bytes), pb_val(self) == entry(pb_val(self)) * 2 ** bit_size"
                   " + field_bits(value, bit_size, endian))",
                   ]),
    '0.0': dict(idx='t', modifies=MOD,
                inv=['pb_ok(self)', '0 <= t and t <= bit_start + 1', 'self._bytes is old(self._bytes)',
                     'implies(t >= 1, self._cur_bit_idx <= 6)',
                     'pb_nbits(self) == entry(pb_nbits(self)) + t',
                     f'pb_val(self) == entry(pb_val(self)) * 2 ** t + ({VB} % 2 ** (bit_start + 1)) // 2 ** (bit_start + 1 - t)']),
}

contract(PB + '.append_bits', props=['C01', 'C12', 'C14'],
         # C14 needs only: a value the field cannot hold is rejected (the layout obligations run under C01 / C12)
         only_for={'C14': ['raises[', 'vacuity', 'cases.exhaustive', 'no-', 'unexpected']},
         requires=['pb_ok(self)', '1 <= bit_size', 'bit_size <= 64', "endian == 'big' or endian == 'little'"],
         raises={'OverflowError': 'not fits_width(value, bit_size)'},
         ensures=APPEND_POST,
         modifies=MOD,
         lemmas=['to_bytes_def', 'bigend_frame'],
         lemma_instances=[('be_acc_is_low_bits', {'k': 'bit_size', 'u': 'value % 2 ** (8 * nbytes_for(bit_size))'})],
         locals={'bit_start': 'int', 'value_bytes': 'bytes'}, loops=LOOPS, blocks=BLOCKS,
         cases={'bit_size': list(range(1, 65))},
         split=[('block[bit]', {'self._cur_bit_idx': (-1, 7), 'old(self._cur_bit_idx)': (-1, 7), 'bit_idx': (0, 7)}),
                ('block[byte]', {'t': (0, 8), 'bit_start': (0, 7)}),
                ('loop[0]', {'i': (0, 9)}),
                ('ensures', {'old(self._cur_bit_idx)': (-1, 7)}),
                ])
