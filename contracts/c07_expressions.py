"""C07 - numeric expressions evaluate to their arithmetic value (evaluator kernels; the parser is covered by a
bounded stand-in, see pyvc/bounded_c07.py)."""
from pyvc.registry import contract, spec, lemma
from . import common, c06_scopes  # noqa

EX = 'bespokeasm.expression:ExpressionNode'
# TokenType values (checked against the enum read from the source by the constant lemma below)
T_NUM, T_LABEL, T_NEG, T_RSH, T_LSH, T_PLUS, T_MINUS, T_MULT, T_DIV, T_MOD, T_AND, T_OR, T_XOR, T_LSB, T_BYTE = range(15)


@spec
def byte_of(v, j):
    """byte j of the two's-complement representation of v"""
    return (v // 2 ** (8 * j)) % 256


@spec(rec=True, sig=['ExpressionNode?', 'arr[TokenType]', 'arr[union]', 'arr[Optional[ExpressionNode]]', 'arr[Optional[ExpressionNode]]',
                     'arr[int]', 'float'])
def ev(n, TT, VAL, L, R, LV):
    """the value ordinary arithmetic assigns to the tree: exact rationals, / the real quotient, % the floor-modulus,
    bit operators and byte extraction on the integer part of their operands"""
    if TT[n].value == 0:
        return real(union_int(VAL[n]))
    if TT[n].value == 1:
        return real(LV[n])
    if TT[n].value == 13:
        return real(byte_of(trunc(ev(L[n], TT, VAL, L, R, LV)), 0))
    if TT[n].value == 14:
        return real(byte_of(trunc(ev(L[n], TT, VAL, L, R, LV)), digit_at(union_str(VAL[n]), 4)))
    if TT[n].value == 2:
        return 0 - ev(L[n], TT, VAL, L, R, LV)
    if TT[n].value == 5:
        return ev(L[n], TT, VAL, L, R, LV) + ev(R[n], TT, VAL, L, R, LV)
    if TT[n].value == 6:
        return ev(L[n], TT, VAL, L, R, LV) - ev(R[n], TT, VAL, L, R, LV)
    if TT[n].value == 7:
        return ev(L[n], TT, VAL, L, R, LV) * ev(R[n], TT, VAL, L, R, LV)
    if TT[n].value == 8:
        return ev(L[n], TT, VAL, L, R, LV) / ev(R[n], TT, VAL, L, R, LV)
    if TT[n].value == 9:
        return (ev(L[n], TT, VAL, L, R, LV)
                - ev(R[n], TT, VAL, L, R, LV) * real(floor(ev(L[n], TT, VAL, L, R, LV) / ev(R[n], TT, VAL, L, R, LV))))
    if TT[n].value == 10:
        return real(bitand(trunc(ev(L[n], TT, VAL, L, R, LV)), trunc(ev(R[n], TT, VAL, L, R, LV))))
    if TT[n].value == 11:
        return real(bitor(trunc(ev(L[n], TT, VAL, L, R, LV)), trunc(ev(R[n], TT, VAL, L, R, LV))))
    if TT[n].value == 12:
        return real(bitxor(trunc(ev(L[n], TT, VAL, L, R, LV)), trunc(ev(R[n], TT, VAL, L, R, LV))))
    if TT[n].value == 3:
        return real(trunc(ev(L[n], TT, VAL, L, R, LV)) // 2 ** trunc(ev(R[n], TT, VAL, L, R, LV)))
    return real(trunc(ev(L[n], TT, VAL, L, R, LV)) * 2 ** trunc(ev(R[n], TT, VAL, L, R, LV)))


@spec(rec=True, sig=['ExpressionNode?', 'arr[TokenType]', 'arr[union]', 'arr[Optional[ExpressionNode]]', 'arr[Optional[ExpressionNode]]', 'bool'])
def wft(n, TT, VAL, L, R):
    """a well-formed expression tree: leaves are numbers / labels, unary nodes have one child, binary nodes two"""
    if n is None:
        return False
    if TT[n].value == 0:
        return union_is_int(VAL[n])
    if TT[n].value == 1:
        return union_is_str(VAL[n])
    if TT[n].value == 2 or TT[n].value == 13:
        return wft(L[n], TT, VAL, L, R)
    if TT[n].value == 14:
        return (union_is_str(VAL[n]) and len(union_str(VAL[n])) >= 5 and 0 <= digit_at(union_str(VAL[n]), 4)
                and digit_at(union_str(VAL[n]), 4) <= 9 and wft(L[n], TT, VAL, L, R))
    if TT[n].value >= 3 and TT[n].value <= 12:
        return wft(L[n], TT, VAL, L, R) and wft(R[n], TT, VAL, L, R)
    return False


HEAPS = ("fld('ExpressionNode.token_type'), fld('ExpressionNode.value'), fld('ExpressionNode.left_child'),"
         " fld('ExpressionNode.right_child')")
LV = ('lam(lambda m: lookup(value_of(label_scope), union_str(m.value)), types={"m": "ExpressionNode"})')
EV = f'ev(self, {HEAPS}, {LV})'
WF = f'wft(self, {HEAPS})'

# CPython fact about int.to_bytes after masking (validated on random samples every run)
lemma('byte_extract', vars={'v': 'int', 'm': 'int', 'j': 'int'},
      sample={'m': (1, 12), 'j': (0, 11)},
      hyps=['m >= 1', '0 <= j', 'j < m'],
      concl=['tb_byte(pmod(pmod(v, 2 ** (8 * m)), 2 ** (8 * m)), m, True, j) == (v // 2 ** (8 * j)) % 256'],
      by='axiom', triggers=['tb_byte(pmod(pmod(v, 2 ** (8 * m)), 2 ** (8 * m)), m, True, j)'], props=['C07'])

contract(EX + '._numeric_value', props=['C07', 'C06', 'C14'], params={'label_scope': 'LabelScope?'},
         requires=['self.token_type.value == 0 or self.token_type.value == 1',
                   'implies(self.token_type.value == 0, union_is_int(self.value))',
                   'implies(self.token_type.value == 1, union_is_str(self.value))',
                   'implies(label_scope is not None, scope_wf(value_of(label_scope)))'],
         may_raise={'SystemExit': 'True'},
         ensures=['implies(self.token_type.value == 0, result == union_int(self.value))',
                  # a reference with no visible definition never gets a value
                  'implies(self.token_type.value == 1, label_scope is not None'
                  ' and lookup_found(value_of(label_scope), union_str(self.value))'
                  ' and result == lookup(value_of(label_scope), union_str(self.value)))'],
         modifies=[])

contract(EX + '._compute', props=['C07'], params={'label_scope': 'LabelScope?'}, returns='float',
         requires=[WF, 'implies(label_scope is not None, scope_wf(value_of(label_scope)))',
                   # (part of WF, repeated in unfolded form for the index arithmetic)
                   'implies(self.token_type.value == 14, 0 <= digit_at(union_str(self.value), 4))'],
         may_raise={'SystemExit': 'True', 'ZeroDivisionError': 'True', 'ValueError': 'True'},
         ensures=[f'result == {EV}'],
         modifies=[], allocates=True, lemmas=['byte_extract'], no_frame_check=True)

contract(EX + '.get_value', props=['C07'], name='C07:ExpressionNode.get_value', params={'label_scope': 'LabelScope?'},
         requires=[WF, 'implies(label_scope is not None, scope_wf(value_of(label_scope)))'],
         may_raise={'SystemExit': 'True', 'ZeroDivisionError': 'True', 'ValueError': 'True'},
         # the final result is the value truncated toward zero
         ensures=[f'result == trunc({EV})'],
         modifies=[], allocates=True, no_frame_check=True)


# ---- literal notations: which notation a text is read in, and that it is read in that radix ------------------------------
# ($ and 0x hexadecimal, trailing-H hexadecimal -- also when the digits start with a `b` --, then b / % binary, then decimal;
#  int(text, radix) is CPython's, an uninterpreted function of the text here)
S = 'numeric_str'
IS_HEX_P, IS_HEX_0X, IS_HEX_H = f'{S}.startswith("$")', f'{S}.startswith("0x")', f'{S}.endswith("H")'
IS_BIN = f'({S}.startswith("b") or {S}.startswith("%"))'
IS_CHR = f"({S}.startswith(\"'\") or {S}.startswith('\"'))"
contract('bespokeasm.utilities:parse_numeric_string', name='literal-notations', props=['C07'],
         # (`'(.)'`: the one group of the character pattern is not optional -- trusted fact about that regular expression)
         regex_facts={'PATTERN_CHARACTER_ORDINAL': [1]},
         may_raise={'ValueError': 'True'},
         ensures=[f'implies({IS_HEX_P}, result == int({S}[1:], 16))',
                  f'implies(not {IS_HEX_P} and {IS_HEX_0X}, result == int({S}[2:], 16))',
                  f'implies(not {IS_HEX_P} and not {IS_HEX_0X} and {IS_HEX_H}, result == int({S}[:-1], 16))',
                  f'implies(not {IS_HEX_P} and not {IS_HEX_0X} and not {IS_HEX_H} and {IS_BIN}, result == int({S}[1:], 2))',
                  f'implies(not {IS_HEX_P} and not {IS_HEX_0X} and not {IS_HEX_H} and not {IS_BIN} and not {IS_CHR},'
                  f' result == int({S}))'],
         modifies=[], no_frame_check=True)
