"""C01 / C12 - AssembledInstruction: the instruction's bytes are the documented concatenation of its parts."""
from pyvc.registry import contract, spec, lemma
from . import common, c01_packed_bits  # noqa

AI = 'bespokeasm.assembler.bytecode.assembled:AssembledInstruction'
PARTS = 'bespokeasm.assembler.bytecode.parts:'

PV_READS = ['ByteCodePart._value_size', 'ByteCodePart._byte_align', 'ByteCodePart._endian', 'NumericByteCodePart._value',
            'ExpressionByteCodePart._parsed_expression', 'ExpressionByteCodePartWithValidation._max',
            'ExpressionByteCodePartWithValidation._min', 'ExpressionByteCodePartInMemoryZone._memzone',
            'ExpressionEnumerationByteCodePart._value_dict', 'dict[int,int]', 'CompositeByteCodePart._parts_list',
            'list[ByteCodePart]', 'MemoryZone._start', 'MemoryZone._end',
            'ExpressionNode.token_type', 'ExpressionNode.left_child', 'ExpressionNode.right_child',
            'LabelScope._labels', 'LabelScope._parent', 'LabelScope._type', 'dict[str,LabelInfo]', 'LabelInfo._value',
            'GlobalLabelScope._register_labels', 'set[str]']


@spec(uninterpreted=True, sig=['ByteCodePart', 'LabelScope?', 'int?', 'int', 'int'], heap_reads=PV_READS)
def pval(part, scope, addr, size):
    """the value a part contributes (abstract: whatever its get_value returns, a function of the part, the scope,
    the label tables and the statement's own address and size)"""


@spec(uninterpreted=True, sig=['ByteCodePart', 'LabelScope?', 'int?', 'int', 'bool'], heap_reads=PV_READS)
def pexits(part, scope, addr, size):
    """get_value exits (unresolvable label, violated operand constraint, ...)"""


@spec(uninterpreted=True, sig=['ByteCodePart', 'LabelScope?', 'int?', 'int', 'bool'], heap_reads=PV_READS)
def pvalerr(part, scope, addr, size):
    """get_value raises ValueError (sliced address whose high bits differ from the instruction's)"""


GV = dict(params={'label_scope': 'LabelScope?', 'instruction_address': 'int?', 'instruction_size': 'int'})
contract(PARTS + 'ByteCodePart.get_value', props=['C01', 'C12', 'C10'], assumed=True, covers_overrides=True,
         reason='every override of get_value is deterministic in (part, scope, label tables, address, size) and writes '
                'nothing; the overrides are verified separately (C12 contracts) to be such functions',
         raises={'SystemExit': 'pexits(self, label_scope, instruction_address, instruction_size)',
                 'ValueError': 'pvalerr(self, label_scope, instruction_address, instruction_size)'},
         ensures=['result == pval(self, label_scope, instruction_address, instruction_size)'],
         modifies=[], **GV)


@spec
def align8(n, aligned):
    """n rounded up to a byte boundary when the next field is byte-aligned"""
    if aligned and n % 8 != 0:
        return n + 8 - n % 8
    return n


@spec(rec=True, sig=['arr[ByteCodePart]', 'arr[bool]', 'arr[int]', 'int', 'int'])
def lay_n(parts, alignH, sizeH, i):
    """bits occupied by the first i parts laid out in order"""
    if i <= 0:
        return 0
    return align8(lay_n(parts, alignH, sizeH, i - 1), alignH[parts[i - 1]]) + sizeH[parts[i - 1]]


@spec(rec=True, sig=['arr[ByteCodePart]', 'arr[bool]', 'arr[int]', 'arr[str]', 'arr[int]', 'int', 'int'])
def lay_v(parts, alignH, sizeH, endH, valH, i):
    """the bit string of the first i parts, as a number: each part is preceded by zero padding to a byte boundary when
    it is byte-aligned and contributes exactly sizeH bits of its value in its own byte order"""
    if i <= 0:
        return 0
    return (lay_v(parts, alignH, sizeH, endH, valH, i - 1)
            * 2 ** (align8(lay_n(parts, alignH, sizeH, i - 1), alignH[parts[i - 1]]) - lay_n(parts, alignH, sizeH, i - 1)
                    + sizeH[parts[i - 1]])
            + field_bits(valH[parts[i - 1]], sizeH[parts[i - 1]], endH[parts[i - 1]]))


P_ = "elems(self._parts), fld('ByteCodePart._byte_align'), fld('ByteCodePart._value_size')"
LN = f'lay_n({P_}, len(self._parts))'
VALS = 'lam(lambda r: pval(r, label_scope, instruction_address, instruction_size), types={"r": "ByteCodePart"})'
LV = f"lay_v({P_}, fld('ByteCodePart._endian'), {VALS}, len(self._parts))"

contract(AI + '.__init__', props=['C01', 'C02'],
         requires=['forall(lambda j: implies(0 <= j and j < len(parts), elems(parts)[j]._value_size >= 0'
                   ' and elems(parts)[j]._value_size < 2 ** 40))', 'len(parts) < 2 ** 10'],
         ensures=['self._parts == parts', f'self._byte_size == ({LN} + 7) // 8', 'self._line_id == line_id'],
         modifies=['self._parts', 'self._line_id', 'self._byte_size'],
         loops={'0': dict(idx='i', inv=[
             'total_bits == lay_n(elems(parts), fld("ByteCodePart._byte_align"), fld("ByteCodePart._value_size"), i)',
             'self._parts == parts', '0 <= total_bits and total_bits <= i * (2 ** 40 + 8)', 'i <= len(parts)'])})


@spec
def eq_shl(w, v, t):
    """w == v * 2**t for a shift 0 <= t <= 7, written out case by case so that it stays linear"""
    return (0 <= t and t <= 7
            and ((t == 0 and w == v) or (t == 1 and w == 2 * v) or (t == 2 and w == 4 * v) or (t == 3 and w == 8 * v)
                 or (t == 4 and w == 16 * v) or (t == 5 and w == 32 * v) or (t == 6 and w == 64 * v)
                 or (t == 7 and w == 128 * v)))


PART_OK = ('forall(lambda j: implies(0 <= j and j < len(self._parts), 1 <= elems(self._parts)[j]._value_size'
           ' and elems(self._parts)[j]._value_size <= 64 and (elems(self._parts)[j]._endian == "big"'
           ' or elems(self._parts)[j]._endian == "little")))')
contract(AI + '.get_bytes', props=['C01', 'C12'],
         returns='bytearray?',
         requires=[PART_OK, 'len(self._parts) >= 1', f'self._byte_size == ({LN} + 7) // 8'],
         may_raise={'SystemExit': 'True', 'ValueError': 'True'},
         ensures=['result is not None', 'len(result) == self._byte_size',
                  # the bytes are the concatenated fields, zero-padded to whole bytes
                  f'eq_shl(bigend(elems(result), len(result)), {LV}, 8 * self._byte_size - {LN})',
                  # every value fits its field (C12, width clause)
                  'forall(lambda j: implies(0 <= j and j < len(self._parts), fits_width('
                  'pval(elems(self._parts)[j], label_scope, instruction_address, instruction_size),'
                  ' elems(self._parts)[j]._value_size)))'],
         modifies=[], allocates=True,
         params={'label_scope': 'LabelScope?', 'instruction_address': 'int?', 'instruction_size': 'int'},
         locals={'bytes': 'bytearray'},
         loops={'0': dict(idx='i', allocates=False,
                          modifies=['packed_bits._bytes[*]', 'packed_bits._cur_byte_idx', 'packed_bits._cur_bit_idx'],
                          inv=['pb_ok(packed_bits)', 'i <= len(self._parts)',
                               f'pb_nbits(packed_bits) == lay_n({P_}, i)',
                               f"pb_val(packed_bits) == lay_v({P_}, fld('ByteCodePart._endian'), {VALS}, i)",
                               'implies(i >= 1, packed_bits._cur_bit_idx <= 6)',
                               'forall(lambda j: implies(0 <= j and j < i, fits_width('
                               'pval(elems(self._parts)[j], label_scope, instruction_address, instruction_size),'
                               ' elems(self._parts)[j]._value_size)))'])})
