"""C10 - a macro assembles to the concatenation of its steps, each at the address it would have on its own line."""
from pyvc.registry import contract, spec, lemma
from . import common, c01_assembled  # noqa
from .c01_assembled import PV_READS

ASM = 'bespokeasm.assembler.bytecode.assembled:'
AI = ASM + 'AssembledInstruction'
CAI = ASM + 'CompositeAssembledInstruction'
MAC = 'bespokeasm.assembler.bytecode.generator.macro:MacroBytecodeGenerator'

IB_READS = PV_READS + ['AssembledInstruction._parts', 'AssembledInstruction._byte_size',
                       'CompositeAssembledInstruction._instructions', 'list[AssembledInstruction]']


@spec(uninterpreted=True, sig=['AssembledInstruction', 'LabelScope?', 'int?', 'int', 'int', 'int'], heap_reads=IB_READS)
def ibyte(instr, scope, addr, size, t):
    """byte t of what an assembled instruction emits: a function of the instruction, the label tables and the
    address and size it is given (abstract here; its value is pinned down by the C01 contract)"""


@spec(rec=True, sig=['arr[AssembledInstruction]', 'arr[int]', 'int', 'int'])
def sumsz(instrs, szH, i):
    """bytes occupied by the first i steps of a macro"""
    if i <= 0:
        return 0
    return sumsz(instrs, szH, i - 1) + szH[instrs[i - 1]]


@spec
def shift_addr(a, off):
    """the address off bytes after a (no address before placement)"""
    if a is None:
        return None
    return some(value_of(a) + off)


# the sum of the first n step sizes only depends on the sizes of those steps (induction on n)
lemma('sumsz_frame', vars={'a': 'arr[AssembledInstruction]', 'h': 'arr[int]', 'r': 'AssembledInstruction', 'v': 'int',
                           'n': 'int'},
      hyps=['forall(lambda j: implies(0 <= j and j < n, a[j] is not r))'],
      concl=['sumsz(a, store(h, r, v), n) == sumsz(a, h, n)'], by='induction', induct='n',
      triggers=['sumsz(a, store(h, r, v), n)'], props=['C10'])

GB = dict(params={'label_scope': 'LabelScope?', 'instruction_address': 'int?', 'instruction_size': 'int'},
          returns='bytearray?')

# the contract callers of get_bytes see: deterministic bytes, as many as the instruction's size.  For the plain class
# this is what the C01 contract proves (len(result) == _byte_size, never None) plus determinism of the parts' values;
# for the composite class it is what the contract below proves.
contract(AI + '.get_bytes', name='abs:AssembledInstruction.get_bytes', props=['C10', 'C02'], assumed=True, covers_overrides=True,
         reason='abstraction of the two verified get_bytes contracts (C01: AssembledInstruction, C10: Composite...) '
                'used at call sites: the bytes are a function of (instruction, scope, label tables, address, size)',
         may_raise={'SystemExit': 'True', 'ValueError': 'True'},
         ensures=['implies(result is not None, fresh(result) and len(result) == self._byte_size'
                  ' and forall(lambda t: implies(0 <= t and t < len(result), elems(result)[t] =='
                  ' ibyte(self, label_scope, instruction_address, instruction_size, t))))',
                  'implies(typeis(self, "AssembledInstruction"), result is not None)'],
         modifies=[], allocates=True, **GB)

I_ = "elems(self._instructions), fld('AssembledInstruction._byte_size')"
I0 = "elems(instructions), fld('AssembledInstruction._byte_size')"

contract(CAI + '.__init__', props=['C10', 'C02', 'C04'],
         params={'instructions': 'list[AssembledInstruction]'},
         requires=['forall(lambda j: implies(0 <= j and j < len(instructions), elems(instructions)[j] is not self))'],
         ensures=['self._instructions is instructions',
                  # the macro occupies exactly the bytes of its steps
                  f'self._byte_size == sumsz({I_}, len(self._instructions))',
                  f'self._byte_size == old(sumsz({I0}, len(instructions)))'],
         modifies=['self._parts', 'self._line_id', 'self._byte_size', 'self._instructions'], allocates=True,
         assume_pre={'AssembledInstruction.__init__': 'the size the base class computes from the flattened part list is '
                     'overwritten by the sum of the step sizes; the base constructor raises nothing'},
         lemmas=['sumsz_frame'],
         loops={'sum0': dict(idx='i', inv=[f'_sum0 == sumsz({I0}, i)', 'i <= len(instructions)'])})

SEG = ('forall(lambda j, t: implies(0 <= j and j < {n} and 0 <= t and t < elems(self._instructions)[j]._byte_size,'
       ' sumsz({I}, j) + t < len({b}) and elems({b})[sumsz({I}, j) + t] == ibyte(elems(self._instructions)[j], label_scope,'
       ' shift_addr(instruction_address, sumsz({I}, j)), elems(self._instructions)[j]._byte_size, t)))')

contract(CAI + '.get_bytes', props=['C10'],
         requires=[f'self._byte_size == sumsz({I_}, len(self._instructions))'],
         may_raise={'SystemExit': 'True', 'ValueError': 'True'},
         ensures=[
             # step j's bytes start sumsz(j) bytes in and are what that step emits at address + sumsz(j), with its own size
             'implies(result is not None, len(result) == self._byte_size and '
             + SEG.format(n='len(self._instructions)', I=I_, b='result') + ')',
             'implies(forall(lambda j: implies(0 <= j and j < len(self._instructions),'
             ' typeis(elems(self._instructions)[j], "AssembledInstruction"))), result is not None)'],
         modifies=[], allocates=True,
         locals={'bytes': 'bytearray', 'address': 'int?'},
         loops={'0': dict(idx='i', allocates=True, modifies=['bytes[*]'], types={'address': 'int?'},
                          inv=['i <= len(self._instructions)', 'fresh(bytes)',
                               f'len(bytes) == sumsz({I_}, i)',
                               f'address == shift_addr(instruction_address, sumsz({I_}, i))',
                               SEG.format(n='i', I=I_, b='bytes')])},
         **GB)

# ---- which variant of a macro is used: the same search as for an instruction ----------------------------------------
OPP = 'bespokeasm.assembler.model.operand_parser:OperandParser'


@spec(uninterpreted=True, sig=['OperandParser', 'list[str]', 'set[str]', 'MemoryZoneManager', 'bool'],
      heap_reads=['list[str]', 'set[str]'])
def ops_match(parser, operands, registers, memzone_manager):
    """the operand pattern of an instruction or macro variant accepts this operand list (the shared matching rules)"""


contract(OPP + '.find_matching_operands', name='abs:OperandParser.find_matching_operands', props=['C10'], assumed=True,
         returns='MatchedOperandSet?',
         reason='the operand matcher shared by instruction and macro variants (its search order is under C13 contracts); '
                'here only: deterministic, effect-free, None exactly when the pattern does not accept the operands',
         may_raise={'SystemExit': 'True'},
         ensures=['(result is not None) == ops_match(self, operands, register_labels, memzone_manager)'],
         modifies=[], allocates=True, no_frame_check=True)


@spec(uninterpreted=True, sig=['InstructionMacroVariant', 'str', 'str?', 'AssemblerModel', 'MemoryZoneManager', 'bool'],
      heap_reads=[])
def mv_accepts(variant, mnemonic, operands, isa_model, memzone_manager):
    """the macro variant's operand pattern accepts the operands"""


@spec(uninterpreted=True, sig=['AssembledInstruction', 'InstructionMacroVariant?'], heap_reads=[])
def expanded_from(assembled):
    """the macro variant an assembled instruction sequence was expanded from (ghost)"""


NO_OPERANDS = '(operands is None or operands == "")'
contract(MAC + '.generate_variant_bytecode_parts', props=['C10'], blocks_only=True,
         params={'operands': 'str?', 'parser_class': 'opaque'}, returns='AssembledInstruction?',
         locals={'operand_list': 'list[str]', 'matched_operands': 'MatchedOperandSet?'},
         blocks={'match': dict(
             where="between:if mnemonic != variant.mnemonic::if 'instructions' not in variant._variant_config", locals={},
             requires=[],
             may_raise={'SystemExit': 'True'},
             ensures=[
                 # the statement's operands are matched as a list; no operand text means the empty list
                 f'(len(operand_list) == 0) == {NO_OPERANDS}',
                 # a variant declared without operands is used only for a statement without operands
                 'implies(variant._operand_parser is None, len(operand_list) == 0 and matched_operands is None)',
                 # a variant with operands is used only if the shared matcher accepts the operand list
                 'implies(variant._operand_parser is not None, matched_operands is not None and ops_match('
                 'variant._operand_parser, operand_list, isa_model._registers, memzone_manager))'],
             on_return=['result is None',
                        f'implies(variant._operand_parser is None, not {NO_OPERANDS})',
                        'implies(variant._operand_parser is not None, not ops_match('
                        'variant._operand_parser, operand_list, isa_model._registers, memzone_manager))'],
             modifies=[], allocates=True)})

contract(MAC + '.generate_variant_bytecode_parts', name='abs:generate_variant_bytecode_parts', props=['C10'], assumed=True,
         reason='deterministic in its arguments; None exactly when the variant does not accept the operands (block '
                '`match` verifies that part of the body); the result is tagged with the variant that made it',
         params={'operands': 'str?', 'parser_class': 'opaque'}, returns='AssembledInstruction?',
         may_raise={'SystemExit': 'True'},
         ensures=['(result is not None) == mv_accepts(variant, mnemonic, operands, isa_model, memzone_manager)',
                  'implies(result is not None, expanded_from(value_of(result)) is variant and fresh(result))'],
         modifies=[], allocates=True, no_frame_check=True)

MACC = 'mv_accepts(elems(macro._variants)[{i}], mnemonic, operands, isa_model, memzone_manager)'
contract(MAC + '.generate_bytecode_parts', props=['C10'],
         params={'operands': 'str?', 'parser_class': 'opaque'},
         may_raise={'SystemExit': 'True'},
         ensures=[  # variants are tried in definition order and the first whose operand pattern accepts the operands is used
             'forall(lambda j: implies(0 <= j and j < len(macro._variants) and ' + MACC.format(i='j')
             + ' and forall(lambda k: implies(0 <= k and k < j, not ' + MACC.format(i='k') + ')),'
             ' expanded_from(result) is elems(macro._variants)[j]))',
             'exists(lambda j: 0 <= j and j < len(macro._variants) and ' + MACC.format(i='j') + ')'],
         modifies=[], allocates=True, no_frame_check=True,
         loops={'0': dict(idx='i', allocates=True,
                          inv=['forall(lambda k: implies(0 <= k and k < i, not ' + MACC.format(i='k') + '))'])})

# ---- placeholders: a step that still contains @ARG / @REG / @OP after substitution is rejected --------------------------
CLEAN = ('(not ("@ARG" in {s}) and not ("@REG" in {s}) and not ("@OP" in {s}))')
contract(MAC + '.generate_variant_bytecode_parts', name='placeholders', props=['C10'], blocks_only=True,
         params={'operands': 'str?', 'parser_class': 'opaque'}, returns='AssembledInstruction?',
         locals={'instruction_lines': 'list[str]', 'matched_operands': 'MatchedOperandSet?', 'instruction_str': 'str'},
         blocks={'substitute': dict(
             where='loop[0]', locals={},
             requires=['len(instruction_lines) == 0'],
             may_raise={'SystemExit': 'True', 'AttributeError': 'True', 'KeyError': 'True'},
             ensures=[
                 # one expanded line per configured step, none with a placeholder left in it
                 'len(instruction_lines) == cfg_len(variant._variant_config["instructions"])',
                 'forall(lambda j: implies(0 <= j and j < len(instruction_lines), '
                 + CLEAN.format(s='elems(instruction_lines)[j]') + '))'],
             modifies=['instruction_lines[*]'])},
         loops={'0': dict(idx='i', modifies=['instruction_lines[*]'],
                          inv=['len(instruction_lines) == i', 'i <= cfg_len(variant._variant_config["instructions"])',
                               'forall(lambda j: implies(0 <= j and j < i, ' + CLEAN.format(s='elems(instruction_lines)[j]') + '))']),
                '0.0': dict(idx='m', modifies=[], types={'instruction_str': 'str'},
                            inv=['m >= 0', 'len(instruction_lines) == i'])})


# ---- what a placeholder is filled with: @ARG(n) is the text of the operand's ARGUMENT part and nothing else -------------
# (an operand without an argument part -- a register -- cannot fill @ARG: the text is None, which leaves the placeholder in
#  the step and the `substitute` block above then rejects it)
contract('bespokeasm.assembler.model.operand:ParsedOperand.operand_argument_string', name='arg-placeholder-text',
         props=['C10'], returns='str?', may_raise={'SystemExit': 'True'},
         ensures=['(result is None) == (self._argument is None)'], modifies=[], no_frame_check=True)


# ---- @OP(n) is the n-th operand AS WRITTEN: every operand type keeps the operand text it was given ------------------------
# (the indirect / deferred numeric operand used to keep only the text inside its brackets: fix d316bf2)
OPT = 'bespokeasm.assembler.model.operand.types.'
KEEPS_TEXT = 'implies(result is not None, result._operand_str == operand)'
contract(OPT + 'indirect_numeric:IndirectNumericOperand.parse_operand', name='indirect-numeric-operand-text', props=['C10'],
         returns='ParsedOperand?', requires=['"argument" in self._config', '"size" in self._config["argument"]'],
         may_raise={'SystemExit': 'True', 'SyntaxError': 'True', 'KeyError': 'True', 'AttributeError': 'True', 'ValueError': 'True'},
         ensures=[KEEPS_TEXT], modifies=[], allocates=True, no_frame_check=True)
for _k, _n in ((OPT + 'register:RegisterOperand.parse_operand', 'register'),
               (OPT + 'indirect_register:IndirectRegisterOperand.parse_operand', 'indirect-register'),
               (OPT + 'relative_address:RelativeAddressOperand.parse_operand', 'relative-address'),
               (OPT + 'numeric_bytecode:NumericBytecode.parse_operand', 'numeric-bytecode'),
               (OPT + 'numeric_expression:NumericExpressionOperand.parse_operand', 'numeric'),
               (OPT + 'empty:EmptyOperand.parse_operand', 'empty')):
    contract(_k, name=_n + '-operand-text', props=['C10'], returns='ParsedOperand?',
             requires=['"argument" in self._config', '"size" in self._config["argument"]'] if _n in ('numeric', 'relative-address') else [],
             may_raise={'SystemExit': 'True', 'SyntaxError': 'True', 'KeyError': 'True', 'AttributeError': 'True',
                        'ValueError': 'True'},
             ensures=[KEEPS_TEXT], modifies=[], allocates=True, no_frame_check=True)

# the text @ARG(n) stands for is the argument expression exactly as written (only surrounding blanks removed)
contract('bespokeasm.assembler.bytecode.parts:ExpressionByteCodePart.instruction_string', name='arg-text-as-written',
         props=['C10'], ensures=['result == str_strip(self._expression)'], modifies=[])
