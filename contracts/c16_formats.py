"""C16 - the memory-describing output formats decode to the address-to-byte map of the emitted lines.

An io.StringIO is modelled as the list of TOKENS written to it (pyvc.methods.sio_write): a byte value 0..255 for
f'{b:02x} ', -16-a for an address field, -1 for ':' (row start), -2 for a line end, -3 for any other text.  How a reader
decodes the compact hex format from these tokens is the spec function `decoded` below: an address field moves the
cursor, a byte is stored at the cursor and advances it."""
from pyvc.registry import contract, spec, declare_fields, lemma
from . import common, c02_lines_abs  # noqa

PP = 'bespokeasm.assembler.pretty_printer'
declare_fields('PrettyPrinterBase', _line_objs='list[LineObject]', _model='AssemblerModel', _max_byte_count='int',
               _max_comment_width='int', _max_line_num_width='int', _max_instruction_width='int')
declare_fields('IntelHexPrettyPrinter', _intel_hex='sio', _as_intel_hex='bool')
declare_fields('ListingPrettyPrinter', _address_size='int', _address_format_str='str', _main_filename='str',
               _bytes_per_line='int')


@spec(rec=True, sig=['arr[int]', 'int', 'int'])
def cursor(ev, n):
    """the address a reader of the first n tokens attributes to the next byte"""
    if n <= 0:
        return 0
    if ev[n - 1] >= 0:
        return cursor(ev, n - 1) + 1
    if ev[n - 1] <= -16:
        return -16 - ev[n - 1]
    return cursor(ev, n - 1)


@spec(rec=True, sig=['arr[int]', 'int', 'arr[int]'])
def decoded(ev, n):
    """the address-to-byte map a reader builds from the first n tokens"""
    if n <= 0:
        return no_bytes()
    if ev[n - 1] >= 0:
        return store(decoded(ev, n - 1), cursor(ev, n - 1), ev[n - 1])
    return decoded(ev, n - 1)


@spec(rec=True, sig=['arr[int]', 'int', 'int'])
def rowlen(ev, n):
    """bytes written on the current text line"""
    if n <= 0:
        return 0
    if ev[n - 1] >= 0:
        return rowlen(ev, n - 1) + 1
    if ev[n - 1] == -2 or ev[n - 1] <= -16:
        return 0
    return rowlen(ev, n - 1)


@spec
def emits(l):
    """lines whose bytes are part of the memory contents: byte-producing and not muted"""
    return isa(l, 'LineWithBytes') and not l._is_muted


# what a reader makes of the first n tokens does not depend on later tokens (induction on n)
for fn in ('cursor', 'rowlen', 'decoded'):
    lemma(fn + '_frame', vars={'ev': 'arr[int]', 'i': 'int', 'v': 'int', 'n': 'int'}, hyps=['i >= n'],
          concl=[f'{fn}(store(ev, i, v), n) == {fn}(ev, n)'], by='induction', induct='n',
          triggers=[f'{fn}(store(ev, i, v), n)'], props=['C16'], uses=['cursor_frame'] if fn == 'decoded' else [])
FRAMES = ['cursor_frame', 'rowlen_frame', 'decoded_frame']

L_ = 'elems(self._line_objs)'
EV = 'elems(output), len(output)'
SHOWN = ('forall(lambda a, t: implies(0 <= a and a < {n} and emits(' + L_ + '[a]) and 0 <= t and t < len(' + L_ + '[a]._bytes),'
         ' decoded(' + EV + ')[value_of(line_addr(' + L_ + '[a])) + t] == elems(' + L_ + '[a]._bytes)[t]))')
SORTED = ('forall(lambda a, b: implies(0 <= a and a < b and b < len(self._line_objs) and emits(' + L_ + '[a]) and emits('
          + L_ + '[b]), value_of(line_addr(' + L_ + '[a])) + len(' + L_ + '[a]._bytes) <= value_of(line_addr(' + L_ + '[b]))))')
PLACED = ('forall(lambda a: implies(0 <= a and a < len(self._line_objs) and (emits(' + L_ + '[a]) or isa(' + L_ + '[a], '
          '"AddressOrgLine")), line_addr(' + L_ + '[a]) is not None and value_of(line_addr(' + L_ + '[a])) >= 0))')

contract(PP + '.minhex:MinHexPrettyPrinter.pretty_print', props=['C16'], blocks_only=True,
         locals={'output': 'sio', 'line_byte_count': 'int', 'address_width': 'int', 'next_address': 'int',
                 'line_bytes': 'bytearray', 'lobj': 'LineObject'},
         blocks={'emit': dict(
             where='loop[0]', locals={},
             requires=['len(output) == 0', 'line_byte_count == 0', 'next_address == 0', SORTED, PLACED,
                       'forall(lambda a: implies(0 <= a and a < len(self._line_objs) and isa(' + L_ + '[a], "AddressOrgLine"),'
                       ' "GLOBAL" in ' + L_ + '[a]._memzone_manager._zones))'],
             may_raise={'SystemExit': 'True'},
             ensures=[
                 # every byte of every emitted line is read back at the address the line was assigned
                 SHOWN.format(n='len(self._line_objs)'),
                 # rows hold at most 16 bytes
                 'rowlen(' + EV + ') == line_byte_count', '0 <= line_byte_count and line_byte_count < 16'],
             modifies=['output[*]'], lemmas=FRAMES)},
         lemmas=FRAMES,
         loops={'0': dict(idx='i', modifies=['output[*]'],
                          inv=['i <= len(self._line_objs)', 'next_address == cursor(' + EV + ')',
                               'line_byte_count == rowlen(' + EV + ')', '0 <= line_byte_count and line_byte_count < 16',
                               SHOWN.format(n='i')]),
                '0.0': dict(idx='m', modifies=['output[*]'],
                            inv=['m <= len(line_bytes)', 'line_bytes is lobj._bytes', 'emits(lobj)',
                                 'lobj is ' + L_ + '[i]',
                                 # byte m of the line is written while the reader's cursor is at its address
                                 'implies(len(line_bytes) > 0, cursor(' + EV + ') == value_of(line_addr(lobj)) + m)',
                                 'next_address == cursor(' + EV + ') + len(line_bytes) - m',
                                 'line_byte_count == rowlen(' + EV + ')', '0 <= line_byte_count and line_byte_count < 16',
                                 SHOWN.format(n='i'),
                                 'forall(lambda t: implies(0 <= t and t < m, decoded(' + EV + ')[value_of(line_addr(lobj)) + t]'
                                 ' == elems(line_bytes)[t]))'])})

# ---- Intel HEX / hex dump: IntelHex.puts(address, bytes) per emitted line -----------------------------------------------
# the IntelHex object (external library) is modelled by the address-to-byte map it holds; puts(a, data) stores data[j] at a + j
SHOWN_IH = ('forall(lambda a, t: implies(0 <= a and a < {n} and emits(' + L_ + '[a]) and 0 <= t and t < len(' + L_ + '[a]._bytes),'
            ' elems(self._intel_hex)[value_of(line_addr(' + L_ + '[a])) + t] == elems(' + L_ + '[a]._bytes)[t]))')
contract(PP + '.intelhex:IntelHexPrettyPrinter.pretty_print', props=['C16'], blocks_only=True,
         locals={'output': 'sio', 'line_bytes': 'bytearray', 'lobj': 'LineObject'},
         blocks={'store': dict(
             where='loop[0]', locals={},
             requires=[SORTED, PLACED, 'self._intel_hex is not output',
                       'forall(lambda a: implies(0 <= a and a < len(self._line_objs) and isa(' + L_ + '[a], "AddressOrgLine"),'
                       ' "GLOBAL" in ' + L_ + '[a]._memzone_manager._zones))'],
             may_raise={'SystemExit': 'True'},
             # every byte of every emitted line is stored at the address the line was assigned
             ensures=[SHOWN_IH.format(n='len(self._line_objs)')],
             modifies=['self._intel_hex[*]'])},
         loops={'0': dict(idx='i', modifies=['self._intel_hex[*]'],
                          inv=['i <= len(self._line_objs)', SHOWN_IH.format(n='i')])})

# ---- listing ------------------------------------------------------------------------------------------------------------
LST = PP + '.listing:ListingPrettyPrinter'


@spec(uninterpreted=True, sig=['list[str]', 'bytearray?'], heap_reads=[])
def rows_of(rows):
    """the byte string whose hex rows a list of row strings is (ghost; the helper itself has the bounded stand-in)"""


# verified on the real body: the helper returns a fresh list that is empty exactly for no bytes (the bytes column of
# `_print_line_object` reads row 0, so a non-empty byte string without a row would end the run with an internal error).
# The invariant needs no string reasoning: after the first byte either a row was appended or a row is being filled.
contract(LST + '._generate_bytecode_line_string', props=['C16'],
         params={'cls': 'opaque', 'line_bytes': 'bytearray', 'bytes_per_str': 'int'}, returns='list[str]',
         locals={'cur_str': 'str?', 'results': 'list[str]'},
         requires=['bytes_per_str >= 1'],
         ensures=['fresh(result)', '(len(result) == 0) == (len(line_bytes) == 0)',
                  # as many rows as the bytes need at bytes_per_str bytes a row: ceil(len / width)
                  'len(result) * bytes_per_str >= len(line_bytes)',
                  '(len(result) - 1) * bytes_per_str < len(line_bytes)'],
         modifies=[], allocates=True,
         loops={'0': dict(idx='i', modifies=['results[*]'],
                          inv=['i <= len(line_bytes)', 'fresh(results)',
                               '(i == 0) == (len(results) == 0 and cur_str is None)',
                               'implies(cur_str is None, i == len(results) * bytes_per_str)',
                               'implies(cur_str is not None, len(cur_str) == 3 * (i - len(results) * bytes_per_str))',
                               'implies(cur_str is not None, 0 < i - len(results) * bytes_per_str '
                               'and i - len(results) * bytes_per_str < bytes_per_str)'])})

contract(LST + '._generate_bytecode_line_string', name='abs:ListingPrettyPrinter._generate_bytecode_line_string',
         props=['C16'], assumed=True,
         reason='builds the rows by string concatenation (bounded stand-in `listing-byte-rows`); here: a fresh list tagged '
                'with the byte string it renders (assumed); that it is empty exactly for no bytes is verified on the body '
                'by the contract above',
         params={'cls': 'opaque', 'line_bytes': 'bytearray'}, returns='list[str]',
         ensures=['fresh(result)', 'rows_of(result) is line_bytes', '(len(result) == 0) == (len(line_bytes) == 0)'],
         modifies=[], allocates=True, no_frame_check=True)

contract(LST + '._print_line_object', props=['C16'], blocks_only=True,
         params={'output': 'sio'}, locals={'line_bytes': 'list[str]?'},
         blocks={'bytes-column': dict(
             where='from:line_bytes = :1', locals={},
             requires=[],
             ensures=[
                 # machine code is shown exactly for lines whose bytes are part of the memory contents ...
                 '(line_bytes is not None) == (emits(lobj) and len(lobj._bytes) > 0)',
                 # ... and then it is the rows of exactly that line's bytes, at least one row
                 'implies(line_bytes is not None, rows_of(line_bytes) is lobj._bytes and len(line_bytes) >= 1)'],
             modifies=[], allocates=True),
             'address-column': dict(
             where='from:if lobj.address is not None:1', locals={},
             requires=['implies(isa(lobj, "AddressOrgLine"), "GLOBAL" in lobj._memzone_manager._zones)'],
             may_raise={'SystemExit': 'True'},
             ensures=[
                 # the address column shows the address the line was assigned (one field), or blanks
                 'len(output) == old(len(output)) + 1',
                 'implies(line_addr(lobj) is not None, elems(output)[old(len(output))] == -16 - value_of(line_addr(lobj)))',
                 'implies(line_addr(lobj) is None, elems(output)[old(len(output))] == -3)'],
             modifies=['output[*]'])})
