#!/bin/sh
# dev helper: run every staged/kept seeded change against the check of its property; print caught / missed
# usage: tools/seed_eval.sh [PID ...]
cd /verif
DIR=seeded; [ -d seeded_staging ] && DIR=seeded_staging
PIDS="$@"; [ -z "$PIDS" ] && PIDS=$(ls $DIR)
for p in $PIDS; do
  for d in /verif/$DIR/$p/change*.diff; do
    D="$(mktemp -d /tmp/pyvc_scratch.XXXXXX)"
    git -C /repo worktree add -q --detach "$D" HEAD 2>/dev/null
    if ( cd "$D" && git apply "$d" 2>/dev/null ); then
      OUT=$(cd /verif && PYVC_REPO_SRC="$D/src" timeout 1200 ./check "$p" 2>&1); RC=$?
      V=$(echo "$OUT" | grep -c '^VIOLATION')
      echo "$p $(basename $d) exit=$RC violations=$V $(echo "$OUT" | grep -m1 'obligation' | cut -c1-110)"
    else
      echo "$p $(basename $d) PATCH-DOES-NOT-APPLY"
    fi
    git -C /repo worktree remove --force "$D"
  done
done
