#!/bin/sh
# dev helper: run every kept seeded change (/verif/seeded/<PID>/<k>/patch.diff) against checks; print caught / missed.
# usage: tools/seed_eval.sh [-a "PIDs to check against every seed"] [PID[/k] ...]
HERE="$(cd "$(dirname "$0")/.." && pwd)"
cd "$HERE"
ALSO=""
if [ "$1" = "-a" ]; then ALSO="$2"; shift 2; fi
SEL="$@"; [ -z "$SEL" ] && SEL=$(ls -d seeded/C* | sed 's,seeded/,,')
for sel in $SEL; do
  case "$sel" in */*) DIRS="seeded/$sel";; *) DIRS=$(ls -d seeded/$sel/*/);; esac
  for dd in $DIRS; do
    dd=${dd%/}; p=$(echo $dd | cut -d/ -f2); k=$(basename $dd)
    D="$(mktemp -d /tmp/pyvc_scratch.XXXXXX)"
    git -C /repo worktree add -q --detach "$D" HEAD 2>/dev/null
    if ( cd "$D" && git apply "$HERE/$dd/patch.diff" 2>/dev/null ); then
      FIRST=1
      for q in $p $ALSO; do
        if [ "$q" = "$p" ] && [ "$FIRST" = "0" ]; then continue; fi
        FIRST=0
        OUT=$(cd "$HERE" && PYVC_REPO_SRC="$D/src" timeout 2400 ./check "$q" 2>&1); RC=$?
        V=$(echo "$OUT" | grep -c '^VIOLATION')
        echo "seed=$p/$k check=$q exit=$RC violations=$V $(echo "$OUT" | grep -m1 '   obligation' | cut -c1-120)"
      done
    else
      echo "seed=$p/$k PATCH-DOES-NOT-APPLY"
    fi
    git -C /repo worktree remove --force "$D"
  done
done
