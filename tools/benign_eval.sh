#!/bin/sh
# dev helper: meaning-preserving edits of functions under contract; each must leave its check at exit 0 (never 1).
# usage: tools/benign_eval.sh
run() {  # file  sed-expression  property  --only substring
  D=$(mktemp -d /tmp/pyvc_scratch.XXXXXX); git -C /repo worktree add -q --detach $D HEAD
  sed -i "$2" $D/src/$1
  CH=$(cd $D && git diff --stat | tail -1 | cut -c1-40)
  T=$(cd $D && PYTHONPATH=$D/src /venv/bin/python -m pytest -q -p no:cacheprovider -x 2>&1 | tail -1 | cut -c1-30)
  OUT=$(cd /verif && PYVC_REPO_SRC=$D/src timeout 1500 ./check $3 --only "$4" 2>&1); RC=$?
  echo "benign [$5] changed=[$CH] tests=[$T] check=$3 exit=$RC violations=$(echo "$OUT" | grep -c '^VIOLATION') $(echo "$OUT" | grep -m1 'UNDECIDED' | cut -c1-120)"
  git -C /repo worktree remove --force $D
}
A=bespokeasm/assembler
run $A/bytecode/assembled.py 's/\baddress\b/cur_addr/g' C10 CompositeAssembledInstruction.get_bytes "rename local named by a loop invariant"
run $A/pretty_printer/minhex.py 's/\bline_byte_count\b/row_count/g' C16 MinHex "rename local named by a block contract"
run $A/preprocessor/condition_stack.py 's/\bselected\b/sel/g' C08 ConditionStack "rename local"
run $A/engine.py 's/\blast_line\b/prev_line/g' C04 Assembler "rename local of the engine's second pass"
run $A/bytecode/packed_bits.py 's/\bbit_start\b/start_bit/g' C14 PackedBits "rename local of append_bits"
run $A/bytecode/generator/macro.py 's/^        if mnemonic != variant.mnemonic:/        log_step = 0\n        if mnemonic != variant.mnemonic:/' C10 generate_variant "insert a statement before a text-anchored block"
run $A/bytecode/packed_bits.py 's/^        self._cur_byte_idx = 0$/        self._cur_bit_idx = 7/; 0,/^        self._cur_bit_idx = 7$/! s/^        self._cur_bit_idx = 7$/        self._cur_byte_idx = 0/' C01 PackedBits.__init__ "reorder two independent assignments"
run $A/engine.py 's/^            lobj.set_start_address(lobj.memory_zone.current_address)$/            if self._verbose > 5:\n                print("placing", lobj)\n            lobj.set_start_address(lobj.memory_zone.current_address)/' C02 Assembler "add a diagnostic print inside a block"
run $A/preprocessor/condition_stack.py 's/^            self._mute_counter -= 1$/            self._mute_counter = self._mute_counter - 1/' C08 ConditionStack "x -= 1 written as x = x - 1"
run $A/line_object/data_line.py 's/^            for b in value_bytes:$/            for one_byte in value_bytes:/; s/^                self._append_byte(b)$/                self._append_byte(one_byte)/' C11 DataLine.generate_bytes "rename a loop variable"
run $A/engine.py 's/^        global_label_scope = self._model.global_label_scope$/        for _p in self._include_paths:\n            pass\n        global_label_scope = self._model.global_label_scope/' C04 Assembler "insert a new loop before the contracted loops of the engine"
run $A/engine.py 's/^        global_label_scope = self._model.global_label_scope$/        for _p in self._include_paths:\n            pass\n        global_label_scope = self._model.global_label_scope/' C03 Assembler "insert a new loop before the contracted loops of the engine (image blocks)"
run $A/assembly_file.py 's/\blobj\b/line_obj/g' C06 AssemblyFile.load_line_objects "rename the loop variable named by the per-line-object block"
run $A/line_object/factory.py 's/^            instruction_str = preprocessor.resolve_symbols(line_id, instruction_str)$/            if log_verbosity > 5:\n                print(instruction_str)\n            instruction_str = preprocessor.resolve_symbols(line_id, instruction_str)/' C09 LineOjectFactory.parse_line "add a diagnostic print inside the substitution block of the line factory"
run $A/line_object/directive_line/memzone.py 's/^        self._memzone_manager = memzone_manager$/        self._memzone_manager: MemoryZoneManager = memzone_manager/' C05 SetMemoryZoneLine "annotate an assignment"
