"""dev helper: run every top-level case of one contract in a pool and print the obligations that are not proved"""
import sys, time, multiprocessing as mp
sys.path.insert(0, '/verif')
from pyvc import run as R
from pyvc.source import Repo
from pyvc.registry import REG

def work(args):
    key, ci, idx, n = args
    from pyvc.engine import Executor
    from pyvc.verify import verify_function
    from pyvc.discharge import solve
    c = REG.contracts[key][ci]
    ex = Executor(R._REPO, REG)
    t0 = time.time()
    obs, err = verify_function(ex, R._REPO.funcs[key], c, chunk=(idx, n))
    out = []
    for ob in obs:
        r = solve(ob, 10000)
        if r['status'] != 'proved' and ob.kind != 'vacuity':
            out.append((ob.name, r['status'], ob.info.get('top_case'), r.get('case')))
    return idx, round(time.time() - t0, 1), err, out

if __name__ == '__main__':
    R._REPO = Repo(); R.load_contracts()
    key, ci = sys.argv[1], int(sys.argv[2])
    n = int(sys.argv[3])
    with mp.get_context('fork').Pool(16) as pool:
        for idx, t, err, out in pool.imap_unordered(work, [(key, ci, i, n) for i in range(n)]):
            print(idx, t, err, out, flush=True)
