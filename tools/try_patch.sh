#!/bin/sh
# dev helper: run a check against a scratch copy of /repo with a patch applied (never touches /repo)
# usage: tools/try_patch.sh <patch> <PID> [extra check args]
set -e
PATCH="$(readlink -f "$1")"; PID="$2"; shift 2
D="$(mktemp -d /tmp/pyvc_scratch.XXXXXX)"
git -C /repo worktree add -q --detach "$D" HEAD
( cd "$D" && git apply "$PATCH" )
set +e
( cd /verif && PYVC_REPO_SRC="$D/src" ./check "$PID" "$@" )
RC=$?
git -C /repo worktree remove --force "$D"
echo "exit=$RC"
exit $RC
