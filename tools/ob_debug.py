"""dev helper: solve the obligations of one contract whose name contains a substring; print verdict details"""
import sys, time, os
sys.path.insert(0, '/verif')
from pyvc import run as R
from pyvc.source import Repo
from pyvc.registry import REG
from pyvc.engine import Executor
from pyvc.verify import verify_function
from pyvc.discharge import solve
R._REPO = Repo(); R.load_contracts()
key, ci, want = sys.argv[1], int(sys.argv[2]), sys.argv[3]
block = sys.argv[4] if len(sys.argv) > 4 and sys.argv[4] != '-' else None
c = REG.contracts[key][ci]
ex = Executor(R._REPO, REG)
t0 = time.time()
obs, err = verify_function(ex, R._REPO.funcs[key], c, block=block)
print('err', err, 'obs', len(obs), 'gen', round(time.time() - t0, 2))
for ob in obs:
    if want in ob.name:
        r = solve(ob, int(os.environ.get('TO', '10000')))
        print(ob.name, r['status'], r['backend'], round(r['time'], 2), 'case:', r.get('case'), 'reason:', r.get('reason'), 'weak:', r.get('weakened'))
        if r['status'] == 'refuted' and os.environ.get('MODEL'):
            print(r.get('smt_model'))
