"""Regenerates MANIFEST.json from the table below (kept in one place so that claims and notes stay in sync)."""
import json

CLAIMS = {
 'C01': dict(tech='contract-based deductive verification (pyvc VC generator + z3): PackedBits bit-packing kernel, AssembledInstruction layout',
   text='Sidecar contracts on the real PackedBits.append_bits / get_bytes and AssembledInstruction.__init__ / get_bytes: the '
        'emitted bytes equal the concatenation of the parts\' fields (each exactly its configured width, in its byte order, '
        'byte-aligned fields padded to a byte boundary, zero-padded to whole bytes), proved for every field width 1..64, both '
        'byte orders and every cursor position with loop invariants / block contracts; obligations generated from the current source each run.',
   note='Also under contract: the opcode / suffix parts built by InstructionBytecodeGenerator (configured value and width, the '
        'instruction\'s byte order for both) and the fields of an enumeration operand (exactly what its dictionaries give, 0 included). '
        'MatchedOperandSet.generate_bytecode: the part list is exactly prefix codes (later operand first; operand order when reversed), '
        'opcode, suffix codes (operand order; reversed when reversed), opcode suffix, arguments (operand order; reversed exactly when the '
        'argument order is reversed). The parts built by numeric, address, relative-address, register, indirect-register, numeric-bytecode and enumeration operands have their configured widths, '
        'alignment, byte order and code values, and a configured code field is always built (value 0 included); the remaining operand types (indexed / indirect-indexed registers, '
        'numeric enumeration) are not under contract; ByteCodePart.get_value is an assumed (deterministic, effect-free) contract; '
        'int.to_bytes is axiomatised (validated by sampling); x|y, x&y enter only through exact single-bit / mask identities.'),
 'C02': dict(tech='contract-based deductive verification (pyvc + z3): per-line placement block of the first pass, size/emission contracts of every line class',
   text='Block contract on the body of the engine\'s first pass (placement at the zone cursor / origin value / smallest aligned '
        'multiple, cursor advances by the reserved size, label bound to its line\'s address) and contracts on every byte_size / '
        'generate_bytes implementation (emitted == reserved), all overrides verified against the same abstract contract text.',
   note='The induction from the per-line block contract to the whole-program statement (every line directly follows its predecessor '
        'in the zone) is argued in DESIGN.md, not machine-checked; every generate_bytes implementation (DataLine and InstructionLine included) '
        'is verified against the same emitted == reserved contract; AssembledInstruction.get_bytes is used through its abstract contract '
        '(length == byte_size); expression evaluation is an assumed deterministic contract (C07 verifies its arithmetic).'),
 'C03': dict(tech='contract-based deductive verification (pyvc + z3): block contracts on the image construction of the engine and on the CLI window parameters',
   text='Block contracts on the engine\'s address->byte map construction (per line) and on the window emission loop: offset a-start '
        'holds the assembled byte or the fill value, explicit windows have length end-start+1, the default end is the highest emitted '
        'address; plus contracts on Assembler.__init__ and the CLI entry (window/fill parameters reach the engine unchanged).',
   note='The closed form of the map over all lines follows from the per-line block contract by induction (not machine-checked); which lines take part is under contract (exactly the compilable lines, then the predefined data blocks appended) and the list is audited to be sorted by address before the second pass; '
        'file writing itself (open/write) is outside the contract; AssemblerModel construction is assumed.'),
 'C04': dict(tech='contract-based deductive verification (pyvc + z3): loop invariant of the engine\'s second pass + AST audit of its sortedness precondition',
   text='Block contract with an inductive invariant on the real second-pass loop: if it completes, all byte-producing lines '
        '(including predefined data blocks, which are in the same sorted list) occupy pairwise disjoint address ranges.',
   note='Precondition (sorted, distinct lines): an AST audit of the current engine source accepts only `<list>.sort(key=lambda x: x.address)` as the last statement touching the list before the second pass (list.sort itself trusted); distinctness comes from the loader (assumed). The converse direction '
        '(disjoint programs are never rejected) is covered only where it is local: MemoryZoneManager.create_zone rejects exactly a taken name / a zone '
        'outside GLOBAL (overlapping zones are not rejected), the size a composite (macro) instruction reserves equals what it emits, and every override of '
        'address / set_start_address / byte_size / generate_bytes found in the source is verified against the abstract line contract.'),
 'C05': dict(tech='contract-based deductive verification (pyvc + z3): MemoryZone contracts, placement block of the engine',
   text='MemoryZone.__init__ / cursor setter raise exactly outside the zone (class invariant start <= cursor <= end+1); the first-pass '
        'block proves every placed line lies inside its zone and origins relative to a zone are offset from its start.',
   note='Also under contract: MemoryZoneManager.create_zone (rejects a taken name, a zone not contained in GLOBAL, inverted or too wide) and the '
        'containment loop of MemoryZoneManager.__init__ (every predefined zone inside GLOBAL); include handling is under the C17 per-line block '
        '(zone unchanged by an include). Also: SetMemoryZoneLine / AddressOrgLine / CreateMemzoneLine constructors (the zone of that name, GLOBAL when none; a reused name is rejected whatever its bounds; '
        'the zone registered is [start, end] inside GLOBAL) and the .memzone / .org branches of the directive factory; the regular expressions themselves are trusted '
        '(three regex facts: no group of the patterns is optional).'),
 'C06': dict(tech='contract-based deductive verification (pyvc + z3): LabelScope lookup and definition',
   text='Contracts on the recursive LabelScope.get_label_value / set_label_value (and the GlobalLabelScope override): a lookup yields '
        'the value from the first table on the LOCAL->FILE->GLOBAL chain, a definition changes exactly the table of the label\'s kind, '
        'and keywords, duplicates, register names and labels with no scope of their kind are rejected.',
   note='The loader\'s scope assignment is covered by the per-line and per-line-object blocks of AssemblyFile.load_line_objects (every non-local address label '
        'opens a fresh LOCAL region under the file scope, .org / .memzone close it, a constant is defined in the region it stands in, a line of an unselected branch '
        'changes nothing) and by the include contracts (included file under the global scope). The keyword tables are module constants, checked as closed terms '
        '(evaluated under CPython, superset test).'),
 'C07': dict(tech='contract-based deductive verification (pyvc + z3) of the evaluator; BOUNDED exhaustive stand-in for the parser',
   text='ExpressionNode._compute / get_value / _numeric_value are verified against a recursive spec function taken from the '
        'statement (exact rationals, real quotient, floor-modulus, bit operators on integer parts, byte n of the two\'s-complement '
        'representation, final truncation toward zero; unresolved labels exit).  The recursive-descent parser is NOT within the '
        'generator\'s reach: it is covered by a bounded stand-in (all token sequences up to 4 / 5 tokens over 17 symbols against a '
        'reference evaluator), reported separately and never counted as proved.',
   note='parser and lexer only bounded (quick tier: every token string up to 4 tokens plus every operator chain a op b op c / a op b op c op d, which is what '
        'associativity needs); parse_numeric_string (which notation a literal is read in, and in that radix) is under contract with int(text, radix) uninterpreted; '
        'DataLine.generate_bytes hands every data item to the expression parser; int.to_bytes after masking is a sampled axiom.'),
 'C13': dict(tech='contract-based deductive verification (pyvc + z3): first-match loop invariants',
   text='The variant loop (InstructionBytecodeGenerator.generate_bytecode_parts) and the operand-set loop (OperandSet.parse_operand) are '
        'proved to return the result of the FIRST alternative, in list order, whose matcher accepts (and to reject when none does); '
        'NumericExpressionOperand._parse_bytecode_parts never accepts an expression mentioning a register; the documented precedence '
        'of operand types is a constant lemma over the OperandType enum read from the source.',
   note='Also under contract: OperandSetsModel.find_operands_from_operand_sets (one alternative per position; a match is never a '
        'disallowed combination, compared as an ordered id list). Which strings each operand pattern accepts is regex matching (assumed '
        'deterministic contracts); Instruction.__init__ is under contract (the variant list is the definition order: own configuration first, then `variants:`). The walk over explicitly listed (specific) '
        'operand combinations and the stable sort of OperandSet.__init__ are not under contract.'),
 'C14': dict(tech='contract-based deductive verification (pyvc + z3) of the rejecting kernels + AST audit of the image-write position',
   text='Every byte-producing line has its bytes generated (so unresolvable labels / violated constraints exit) before any output, '
        'reserved sizes are never negative, relative-offset / label-resolution kernels exit exactly as specified; a mechanical audit of '
        'the current engine source shows the image write is unique, guarded only by the generate-binary flag, and followed by nothing that can abort.',
   note='Deleting or replacing a file (os.remove / unlink / rename / replace, shutil.rmtree / move) is in no contract\'s frame: reachable in a function under contract '
        '(the CLI entry included) it is a failed frame obligation. Fill and data lines evaluate their expressions whatever the count. '
        'Termination of the line parser loop and of include / symbol recursion rests on regex-based factories and is not proved; '
        'for-loops over finite sequences terminate by construction; environment failures (I/O) out of scope.'),
 'C15': dict(tech='AST audit of set-order-sensitive sites + contract-based proof of order independence (pyvc + z3)',
   text='Every order-sensitive use of a set on the compile path is enumerated from the current source and accepted only by a stated '
        'rule; the one loop whose result could depend on iteration order (include-file lookup) is proved independent of an arbitrary '
        'enumeration of the set.',
   note='Set-typedness is inferred from annotations and constructors, not proved; the audit covers loops, comprehensions, list/tuple/join/enumerate/... conversions, '
        '*-unpacking and tuple-unpacking of a set, and calls of hash / id / random / time / os.environ / os.getcwd / os.listdir / glob; Assembler.__init__ keeps its arguments '
        '(nothing of the environment is mixed into the search path); C-extension nondeterminism excluded.'),
 'C19': dict(tech='contract-based deductive verification (pyvc + z3): validation kernels',
   text='Accepted definitions satisfy: required sections present; min_version gates by semantic-version order; no mnemonic (instruction or '
        'macro, any letter case) is a keyword; macro names differ from instruction names; operand counts equal the lengths of operand sets '
        'and of every listed combination; numeric bytecode ranges not inverted; memory zones inside the address space.',
   note='Also under contract: the comparison block of RequiredLanguageLine (#require is rejected exactly when the ISA version does not '
        'satisfy the stated comparison in version order), the register-name loop of AssemblerModel.__init__ (no register is a keyword) and '
        'OperandSetsModel.__init__ (every operand set an instruction refers to is declared). packaging.version ordering is trusted (abstract rank); '
        '"well-formed definitions are never rejected" (no other exit reachable) are not under contract; Instruction / InstructionMacro construction assumed. The keyword tables '
        '(keywords.py) are checked as closed terms.'),
 'C08': dict(tech='contract-based deductive verification (pyvc + z3): ConditionStack contracts, inert-directive and include gating contracts',
   text='Contracts on the real ConditionStack (process_condition, _push, currently_active, is_muted) against the statement: a branch is '
        'selected iff every enclosing frame is selected, no earlier branch of its chain was, and its own condition holds when the '
        'directive is reached; #else / #elif / #endif parent rules raise exactly for a missing opener; in an unselected branch a '
        'non-conditional directive defines no symbol and no zone (PreprocessorLineFactory.parse_line) and an #include loads nothing '
        '(per-line block of AssemblyFile.load_line_objects).',
   note='How conditions compare (IfPreprocessorCondition._evaluate_condition) is an assumed deterministic contract (regex + expression parsing) backed by a BOUNDED '
        'stand-in (6 operators x values -N..N and three large ones x 4 notations per side, #if and #elif, and the bare form, against "compare integers; bare means != 0"), never counted as proved; '
        'the per-line-object block of the loader proves that a line of an unselected branch changes neither region nor zone and defines nothing; included lines are read under the '
        'includer\'s own condition stack; the line factories that construct directive lines are assumed with their effects listed in modifies.'),
 'C09': dict(tech='contract-based deductive verification (pyvc + z3) of the symbol table and the substitution fixpoint + AST audit of the substitution step',
   text='Preprocessor.create_symbol grows the table by exactly one key or raises for a duplicate; resolve_symbols is proved to return only '
        'when no whole word of the line is a defined symbol (fixpoint) and to exit on a cycle; an audit of the current source accepts the '
        'single rewrite step only in the form re.sub(\\b<escaped symbol>\\b, <value>, line), i.e. whole-word substitution.',
   note='re.sub / re.findall semantics are trusted library facts (uninterpreted words_of / re_sub with the whole-word pattern); that '
        'substitution happens in definition order is not separately claimed (the fixpoint result does not depend on it when it terminates). Also under contract: '
        'symbols predefined by the configuration (every entry defined with its text), command-line symbols (an existing definition is never replaced), the #define line '
        '(its name was not defined before), PreprocessorSymbol.__init__ (the text as given) and two blocks of the line factory (the assembled text is the line before the comment as written; '
        'substitution precedes parsing and leaves no defined symbol).'),
 'C10': dict(tech='contract-based deductive verification (pyvc + z3): CompositeAssembledInstruction, macro variant search',
   text='CompositeAssembledInstruction.__init__ / get_bytes: a macro occupies exactly the sum of its steps\' sizes and its bytes are, step by '
        'step, what that step emits at address + (sum of the preceding sizes) with its own size (loop invariant over a recursive sum, '
        'induction lemma for the frame); MacroBytecodeGenerator.generate_bytecode_parts returns the expansion of the FIRST variant that '
        'accepts the operands; the head of generate_variant_bytecode_parts accepts a variant only through the operand matcher shared with '
        'instructions (a variant without operands only for a statement without operands).',
   note='The per-step bytes are an assumed abstraction (ibyte) of the verified AssembledInstruction.get_bytes contract; what a placeholder is replaced BY is under contract '
        '(@OP: every operand type keeps the operand text as written -- the indirect / deferred numeric operand did not, fix d316bf2; @ARG: the argument part\'s expression as written, nothing when '
        'there is no argument part), the replacement itself is str.replace (uninterpreted) and step parsing regex; '
        'AssembledInstruction.__init__\'s precondition is assumed at the composite\'s super().__init__ call (its result is overwritten).'),
 'C11': dict(tech='contract-based deductive verification (pyvc + z3): data / fill / string emitters',
   text='DataLine.generate_bytes: byte k of the line is byte k % width of value k // width reduced modulo 2**(8*width) in the configured '
        'order, for every directive (case split proved exhaustive), numbers and expression texts alike; DataLine.factory (string branch) and '
        'EmbeddedString.__init__/factory: one value per character after escape processing, then the configured terminator for .cstr/.asciiz/'
        'bare strings; FillDataLine / FillUntilDataLine / PredefinedDataLine: n copies of the low byte, inclusive upper bound, nothing when past; '
        'the directive factory builds .zero n and .zerountil a as fills whose value is the text "0".',
   note='unicode_escape decoding, ord and the directive regexes are uninterpreted library functions; parse_expression is an assumed contract '
        '(value of the text in a scope); int.to_bytes is the sampled axiom to_bytes_def; EmbeddedString rejects (ValueError) characters above 255.'),
 'C16': dict(tech='contract-based deductive verification (pyvc + z3) over a token model of the printers\' output; BOUNDED stand-in for the listing row helper',
   text='An io.StringIO is modelled as the list of tokens written (byte value, address field, row start, line end, other text). MinHex: the '
        'map a reader decodes from the tokens (spec function `decoded`: an address field moves the cursor, a byte is stored at the cursor) '
        'holds, for every unmuted byte-producing line, that line\'s bytes at its assigned addresses; rows hold at most 16 bytes. IntelHex / '
        'hex dump: the library object (modelled by the address-to-byte map it holds) receives exactly those bytes at those addresses. Listing: '
        'the byte column is filled exactly for unmuted lines with at least one byte, from that line\'s bytes, and the address column shows the '
        'assigned address. The image side is the C03 address-to-byte map over the same sorted line list.',
   note='The token reading of the output text (sio_write) and IntelHex.puts / write_hex_file / dump are trusted, backed by a BOUNDED stand-in that assembles a fixed family of programs '
        'with the real CLI and decodes all four formats back to address-to-byte maps (equal to each other and to the image); the listing\'s row-splitting '
        'helper (_generate_bytecode_line_string) is under a verified contract for "a fresh list of ceil(len / width) rows, empty exactly for no bytes" (loop invariant over the length of the row being filled; '
        'trusted: f\'{b:02x}\' of a byte value has two characters); '
        'WHAT the rows render is only covered by a bounded stand-in (lengths 0..64 / 0..400 x widths 1..8); "each statement exactly once" in the listing '
        '(copy + sort with a key function) is not under contract; preconditions: lines sorted by address and non-overlapping (C04).'),
 'C17': dict(tech='contract-based deductive verification (pyvc + z3): AssemblyFile / LabelScope constructors, include handling, per-line loader block, include-directory de-duplication',
   text='Every file gets a fresh FILE scope directly under the scope it is given; _handle_include_file loads the included text through a '
        'new file object whose scope hangs under the includer\'s parent (neither file sees the other\'s file labels), rejects a file that '
        'was already used, and resolves the name to the unique existing candidate (_locate_filename); the per-line block of '
        'load_line_objects proves that an include appends in place, leaves the includer\'s local-label region and selected zone untouched '
        'and loads nothing in an unselected branch; the engine\'s search-directory list is exactly the entries without a later duplicate '
        '(after realpath), in order.',
   note='File reading itself (open / iteration) is outside the subset: load_line_objects is verified per line (block contract) and used '
        'through an assumed abstract contract at the recursive call; the included file starts in the GLOBAL zone, as documented in '
        'docs/named-memory-zones-requirements.md (read as part of "fresh file state", see DESIGN.md); os.path functions are uninterpreted; Assembler.__init__ hands the search '
        'directories on as given; the included lines are read under the includer\'s condition stack (ghost loaded_under).'),
 'C12': dict(tech='contract-based deductive verification (pyvc + z3): exits-iff contracts on every constrained byte-code part and on bit packing',
   text='Exceptional postconditions (raised IFF condition) on the real get_value of the min/max, memory-zone, enumeration, relative-address '
        'and sliced-address parts, and on PackedBits.append_bits / AssembledInstruction.get_bytes (value fits the signed-or-unsigned range of its field width 1..64).',
   note='Also: the configured min / max and the measured-from-the-last-byte flag are proved to reach the relative-address part unchanged '
        '(RelativeAddressOperand.parse_operand, RelativeAddressByteCodePart.__init__), and likewise the min / max of a numeric-bytecode operand '
        '(NumericBytecode.parse_operand, ExpressionByteCodePartWithValidation.__init__). Expression evaluation is an assumed deterministic contract; '
        'NumericBytecode.__init__ (inverted range) is under C19.'),
}
NA = {
 'C18': 'relates two source texts through a stack of Python re patterns (\\b, look-ahead); no contract within reach of an SMT-based VC generator decides it (DESIGN.md section 7)',
 'C20': 'well-formedness is produced by json/yaml/zipfile/shutil and classification decided by third-party regex engines; no in-repo function carries the property (DESIGN.md section 7)',
}
PENDING = {}

def main():
    checks = []
    for pid, c in sorted(CLAIMS.items()):
        checks.append(dict(property_id=pid, quick_cmd=f'./check {pid} --tier quick', thorough_cmd=f'./check {pid} --tier thorough',
                           evidence_file=f'/verif/evidence/{pid}.json', replay_cmd_template=f'./check {pid} --replay {{path}}',
                           engine='pyvc',
                           level_claimed=dict(category='proof' if pid not in ('C15',) else 'other', text=c['text'], design_ref='DESIGN.md section 6'),
                           level_note=c['note'], technique=c['tech']))
    na = [dict(property_id=p, reason=r) for p, r in sorted({**NA, **{k: v for k, v in PENDING.items() if k not in CLAIMS}}.items())]
    m = dict(version=1,
             setup_cmd="python3-vt -c 'import z3' && /venv/bin/python -c 'import bespokeasm'",
             hooks=dict(guard='BESPOKEASM_VERIF',
                        enable='no hooks: contracts are sidecar files under /verif/contracts; /repo is read, never annotated',
                        baseline_off_cmd='cd /repo && /venv/bin/python -m pytest -ra -q -p no:cacheprovider --timeout=900 --continue-on-collection-errors',
                        source_commits=[], add_only=True),
             engines=[dict(name='pyvc', path='/verif/pyvc', serves_properties=sorted(CLAIMS),
                           kind_free_text='VC generator for a Python subset (forward symbolic execution of the real function bodies against sidecar contracts) + z3/cvc5')],
             checks=checks, not_applicable=na,
             notes='fix: commits in /repo repair genuine defects found by failed obligations (see known_findings.json)')
    json.dump(m, open('/verif/MANIFEST.json', 'w'), indent=1)

if __name__ == '__main__':
    main()
