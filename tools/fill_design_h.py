"""Fills the table and the per-round counts of appendix H of DESIGN.md from seeded/RESULTS.md (tools/gen_seed_table.py)."""
import re
md = open('/verif/seeded/RESULTS.md').read()
counts = dict(re.findall(r'\*\*(rounds 1-2|round \d+): \d+ changes — ([^*]+)\*\*', md))
s = open('/verif/DESIGN.md').read()
for key, ph in (('rounds 1-2', '@R12@'), ('round 3', '@R3@'), ('round 4', '@R4@')):
    s = re.sub(r'(\| ' + {'@R12@': '1-2', '@R3@': '3', '@R4@': '4'}[ph] + r' \(\d+\) \|[^\n]*\| )[^|\n]*( \|\n)',
               lambda m: m.group(1) + counts.get(key, '?').strip() + m.group(2), s, count=1)
a, b = s.index('### H.2'), s.index('### H.3')
head = s[a:].split('\n', 2)
s = s[:a] + head[0] + '\n\n' + md.strip() + '\n\n' + s[b:]
open('/verif/DESIGN.md', 'w').write(s)
print(counts)
