#!/usr/bin/env python3
"""dev helper: confirm a candidate change delivered by a sub-agent (<src>/{patch.diff,demo.py,desc.txt}) on a scratch
worktree of /repo HEAD and, if it is confirmed (applies, 81 tests pass, demo exits 0 without / non-zero with the change),
stage it as /verif/seeded/<PID>/<next k>/.   usage: tools/import_seed.py <PID> <srcdir> [...]"""
import json
import os
import re
import shutil
import subprocess
import sys
import tempfile

HERE = os.path.dirname(os.path.dirname(os.path.abspath(__file__)))
ROUND = os.environ.get('SEED_ROUND', '3')


def sh(cmd, cwd=None, env=None, timeout=900):
    e = dict(os.environ, **(env or {}))
    p = subprocess.run(cmd, shell=True, cwd=cwd, env=e, capture_output=True, text=True, timeout=timeout)
    return p.returncode, (p.stdout + p.stderr)


def confirm(src):
    d = tempfile.mkdtemp(prefix='pyvc_scratch.', dir='/tmp')
    sh(f'git -C /repo worktree add -q --detach {d} HEAD')
    try:
        env = {'PYTHONPATH': f'{d}/src'}
        base, _ = sh(f'/venv/bin/python {src}/demo.py', cwd=d, env=env, timeout=300)
        rc, out = sh(f'git apply {src}/patch.diff', cwd=d)
        if rc:
            return dict(ok=False, why='patch does not apply: ' + out[-200:])
        _, t = sh('/venv/bin/python -m pytest -q -p no:cacheprovider', cwd=d, env=env)
        tests = t.strip().splitlines()[-1] if t.strip() else ''
        mut, mo = sh(f'/venv/bin/python {src}/demo.py', cwd=d, env=env, timeout=300)
        ok = base == 0 and mut != 0 and re.search(r'\b81 passed', tests) and 'failed' not in tests
        _, files = sh('git diff --name-only', cwd=d)
        return dict(ok=bool(ok), base=base, mut=mut, tests=tests, files=files.split(), demo_out=mo[-300:])
    finally:
        sh(f'git -C /repo worktree remove --force {d}')


def main():
    pid = sys.argv[1]
    head = subprocess.check_output('git -C /repo rev-parse --short HEAD', shell=True, text=True).strip()
    for src in sys.argv[2:]:
        src = os.path.abspath(src)
        if not os.path.exists(f'{src}/patch.diff') or not os.path.exists(f'{src}/demo.py'):
            print(pid, src, 'INCOMPLETE')
            continue
        c = confirm(src)
        if not c['ok']:
            print(pid, src, 'NOT CONFIRMED', json.dumps(c)[:400])
            continue
        ks = [int(k) for k in os.listdir(f'{HERE}/seeded/{pid}') if k.isdigit()]
        k = max(ks + [0]) + 1
        dst = f'{HERE}/seeded/{pid}/{k}'
        os.makedirs(dst)
        shutil.copy(f'{src}/patch.diff', dst)
        shutil.copy(f'{src}/demo.py', dst)
        desc = open(f'{src}/desc.txt').read().strip() if os.path.exists(f'{src}/desc.txt') else ''
        meta = dict(property=pid, change=k, breaks=pid, files=c['files'], description=desc,
                    origin=f'round {ROUND}: written by a fresh sub-agent that was given only the property text, the list of '
                           'locations earlier changes had used, and its own scratch worktree',
                    ported=False, ported_note=None,
                    apply=f'git -C /repo apply /verif/seeded/{pid}/{k}/patch.diff   (undo: git -C /repo checkout -- .)',
                    demo='PYTHONPATH=<tree>/src /venv/bin/python demo.py   (exit 0: property holds for its inputs; non-zero: violated)',
                    confirmed=dict(tree=f'/repo HEAD with every fix: commit (confirmed at {head})',
                                   tests=c['tests'], demo_without_change=f'exit {c["base"]}',
                                   demo_with_change=f'exit {c["mut"]}',
                                   how='tools/import_seed.py in a scratch worktree (git worktree add --detach; removed afterwards)'))
        json.dump(meta, open(f'{dst}/meta.json', 'w'), indent=1)
        print(pid, src, '->', f'seeded/{pid}/{k}', c['tests'], f'demo {c["base"]}/{c["mut"]}')


if __name__ == '__main__':
    main()
