#!/bin/sh
# run every claimed check on /repo (quick tier) and keep the evidence it writes; report non-zero exits
cd /verif
for p in $(python3 -c "import json; print(' '.join(c['property_id'] for c in json.load(open('MANIFEST.json'))['checks']))"); do
  ./check $p --tier quick > /tmp/regen_$p.log 2>&1; echo "$p exit=$? $(head -1 /tmp/regen_$p.log | cut -c1-120)"
done
