"""Turns the output of tools/seed_eval.sh into seeded/RESULTS.json and a markdown table (appendix H of DESIGN.md)."""
import json
import os
import re
import sys

log = sys.argv[1]
rows = []
for line in open(log):
    m = re.match(r'seed=(C\d+)/(\d+) check=(C\d+) exit=(\d+) violations=(\d+)\s*(.*)', line.strip())
    if m:
        pid, k, chk, rc, nv, ob = m.groups()
        rows.append(dict(seed=f'{pid}/{k}', check=chk, exit=int(rc), violations=int(nv), first_obligation=ob.strip()))
json.dump(rows, open('/verif/seeded/RESULTS.json', 'w'), indent=1)
verdict = {0: 'MISSED (exit 0)', 1: 'caught', 2: 'undecided (exit 2)', 3: 'checker crash'}
out = ['| seed | files changed | own check | obligation reported first |', '|---|---|---|---|']
for r in rows:
    pid, k = r['seed'].split('/')
    if r['check'] != pid:
        continue
    meta = json.load(open(f'/verif/seeded/{pid}/{k}/meta.json'))
    files = ', '.join(os.path.basename(f) for f in meta['files'])
    ob = re.sub(r'^obligation ', '', r['first_obligation'])
    ob = ob.split(' (')[0]
    out.append(f"| {r['seed']}{' (ported)' if meta.get('ported') else ''} | {files} | {verdict[r['exit']]} ({r['violations']}) | `{ob}` |")
open('/verif/seeded/RESULTS.md', 'w').write('\n'.join(out) + '\n')
print('\n'.join(out))
