"""Turns the output of tools/seed_eval.sh (one or more log files) into seeded/RESULTS.json and seeded/RESULTS.md
(the tables of appendix H of DESIGN.md).  Later lines for the same seed/check replace earlier ones (re-runs)."""
import json
import os
import re
import sys

HERE = os.path.dirname(os.path.dirname(os.path.abspath(__file__)))
rows = {}
for log in sys.argv[1:]:
    for line in open(log):
        m = re.match(r'seed=(C\d+)/(\d+) check=(C\d+) exit=(\d+)(?: violations=(\d+))?\s*(.*)', line.strip())
        if m:
            pid, k, chk, rc, nv, ob = m.groups()
            rows[(pid, int(k), chk)] = dict(seed=f'{pid}/{k}', check=chk, exit=int(rc), violations=int(nv or 0),
                                            first_obligation=ob.strip(), log=os.path.basename(os.path.dirname(log)) or log)
rows = [rows[k] for k in sorted(rows)]
json.dump(rows, open(f'{HERE}/seeded/RESULTS.json', 'w'), indent=1)
verdict = {0: 'MISSED (exit 0)', 1: 'caught', 2: 'undecided (exit 2)', 3: 'checker crash (exit 3)'}


def round_of(meta):
    m = re.match(r'round (\d+)', meta.get('origin', ''))
    return int(m.group(1)) if m else 1


out, by_round = [], {}
for r in rows:
    pid, k = r['seed'].split('/')
    if r['check'] != pid:
        continue
    meta = json.load(open(f'{HERE}/seeded/{pid}/{k}/meta.json'))
    by_round.setdefault(round_of(meta), []).append((r, meta))
for rnd in sorted(by_round):
    lst = by_round[rnd]
    cnt = {}
    for r, _ in lst:
        cnt[r['exit']] = cnt.get(r['exit'], 0) + 1
    title = 'rounds 1-2' if rnd == 1 else f'round {rnd}'
    out.append(f'**{title}: {len(lst)} changes — ' + ', '.join(f'{cnt[e]} {verdict[e]}' for e in sorted(cnt, key=lambda e: (e != 1, e))) + '**')
    out.append('')
    out += ['| seed | files changed | own check | obligation reported first |', '|---|---|---|---|']
    for r, meta in lst:
        files = ', '.join(sorted({os.path.basename(f) for f in meta['files']}))
        ob = re.sub(r'^obligation ', '', r['first_obligation']).split(' (')[0]
        if ob.startswith('UNDECIDED'):
            ob = ob[:110]
        out.append(f"| {r['seed']}{' (ported)' if meta.get('ported') else ''} | {files} | {verdict[r['exit']]} | `{ob}` |")
    out.append('')
open(f'{HERE}/seeded/RESULTS.md', 'w').write('\n'.join(out) + '\n')
print('\n'.join(l for l in out if l.startswith('**')))
