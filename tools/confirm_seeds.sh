#!/bin/sh
# dev helper: for every staged seed: does the patch apply on /repo HEAD, do the 81 tests pass with it, does the demo pass
# without it and fail with it?   usage: tools/confirm_seeds.sh [PID ...]
cd /verif
DIR=seeded
PIDS="$@"; [ -z "$PIDS" ] && PIDS=$(cd $DIR && ls -d C*)
for p in $PIDS; do
  for d in /verif/$DIR/$p/*/patch.diff; do
    n=$(basename $(dirname $d))
    demo=$(dirname $d)/demo.py
    D="$(mktemp -d /tmp/pyvc_scratch.XXXXXX)"
    git -C /repo worktree add -q --detach "$D" HEAD 2>/dev/null
    base=$(cd "$D" && PYTHONPATH="$D/src" timeout 300 /venv/bin/python "$demo" >/dev/null 2>&1; echo $?)
    if ( cd "$D" && git apply "$d" 2>/dev/null ); then
      tests=$(cd "$D" && PYTHONPATH="$D/src" timeout 900 /venv/bin/python -m pytest -q -p no:cacheprovider -x 2>&1 | tail -1 | cut -c1-40)
      mut=$(cd "$D" && PYTHONPATH="$D/src" timeout 300 /venv/bin/python "$demo" >/dev/null 2>&1; echo $?)
      echo "$p #$n applies tests=[$tests] demo_without=$base demo_with=$mut"
    else
      echo "$p #$n PATCH-DOES-NOT-APPLY demo_without=$base"
    fi
    git -C /repo worktree remove --force "$D"
  done
done
