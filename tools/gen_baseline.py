"""Writes baseline/locals.json: for every function that has a verified contract, the names its body assigns on the
committed tree.  A run on a changed tree uses it to recognise a pure RENAME of one local (one name gone, one new) and
reads the contract with the new name instead of treating its clauses as detached."""
import json
import os
import sys
sys.path.insert(0, '/verif')
from pyvc import run as R          # noqa: E402
from pyvc.source import Repo       # noqa: E402
from pyvc.registry import REG      # noqa: E402
from pyvc.stmts import assigned_names   # noqa: E402

repo = Repo('/repo/src')
R._REPO = repo
R.load_contracts()
out = {}
for key, cs in sorted(REG.contracts.items()):
    if any(not c.assumed for c in cs) and key in repo.funcs:
        fi = repo.funcs[key]
        out[key] = sorted(assigned_names(fi.node.body) | set(fi.params))
os.makedirs('/verif/baseline', exist_ok=True)
json.dump(out, open('/verif/baseline/locals.json', 'w'), indent=0, sort_keys=True)
print(len(out), 'functions')
