_f: .byte 2
g2: .byte _f
