"""Function-level verification: build the initial state from the contract, run the real body,
emit postcondition / exceptional-postcondition / frame obligations."""
import ast

import z3

from . import vtypes as T
from .vtypes import INT, BOOL, STR, NONE, OPAQUE
from .engine import SV, NONE_SV, VCError, Cx, State, Executor
from .calls import eval_clause, param_types, return_type
from .source import strip_docstring
from .stmts import exec_block, heap_keys_of_modifies

I = z3.IntVal


def short(key):
    return key.split(':')[1]


def initial_state(ex, fi, c, cx):
    ptypes = param_types(ex, fi, c)
    st = State()
    for n in fi.params:
        ty = ptypes.get(n)
        if ty is None:
            raise VCError(f'parameter {n} of {fi.key} has no usable type; give params= in the contract')
        v = ex.fresh(ty, n)
        st = st.setvar(n, v)
        for fact in ex.type_facts(v):
            st = st.assume(fact)
        st = ex.assume_allocated(st, v)
        if n == 'self' and fi.cls is not None and ty.kind == 'ref' and fi.kind in ('method', 'getter', 'setter'):
            # the receiver's dynamic class is one for which method resolution picks THIS implementation
            mname = fi.node.name
            ok = []
            for d in sorted(ex.repo.subclasses.get(fi.cls.name, ())):
                if fi.kind == 'getter':
                    _, rfi = ex.repo.find_getter(d, mname)
                elif fi.kind == 'setter':
                    _, rfi = ex.repo.find_setter(d, mname)
                else:
                    _, rfi = ex.repo.find_method(d, mname)
                if rfi is fi:
                    ok.append(ex.repo.class_ids[d])
            st = st.assume(z3.Or([ex.clsof(v.z) == i for i in ok]))
    for n, tys in c.ghost.items():
        v = ex.fresh(ex.tenv.parse(tys), n)
        st = st.setvar(n, v)
    # a constructor's receiver is a fresh object: nothing else refers to it (no field of any object equals it)
    return st


def case_list(c, chunk=None):
    """All combinations of the contract's top-level case split (optionally one chunk of them)."""
    import itertools
    if not c.cases:
        return [None]
    names = list(c.cases)
    combos = [dict(zip(names, vals)) for vals in itertools.product(*[c.cases[n] for n in names])]
    if chunk is not None:
        i, n = chunk
        combos = combos[i::n]
    return combos


def bind_case(ex, st, case):
    """Fix parameters / receiver fields to concrete values (one case of the split)."""
    for name, val in case.items():
        if isinstance(val, bool):
            sv = SV(BOOL, z3.BoolVal(val))
        elif isinstance(val, int):
            sv = SV(INT, I(val))
        elif isinstance(val, str):
            sv = SV(STR, z3.StringVal(val))
        else:
            raise VCError(f'case value {val!r}')
        if '.' in name:
            base, fld = name.split('.')
            st = ex.write_field(st, st.vars[base], fld, sv)
        else:
            st = st.setvar(name, ex.coerce(sv, st.vars[name].ty))
    return st


def setup_blocks(ex, fi, c):
    from .stmts import find_block
    ex.block_map = {}
    for name, spec in (c.blocks or {}).items():
        stmts = find_block(fi.node, spec['where'])
        if not stmts:
            raise VCError(f'anchor-missing: block {name} ({spec["where"]}) is empty')
        ex.block_map[id(stmts[0])] = (name, spec, stmts)


def verify_block(ex, fi, c, name, label=None):
    """Verify one block contract in isolation: arbitrary state satisfying the block's requires."""
    from .stmts import find_block
    ex.cur_fn = fi.key
    ex.cur_contract = c
    ex.cur_fi = fi
    ex.obs = []
    spec = c.blocks[name]
    lab = f'{label or c.name or short(fi.key)}/block[{name}]'
    ltypes = dict(c.locals)
    ltypes.update(spec.get('locals', {}))
    cx = Cx(fi, spec=False, depth=0, contract=c, label=lab, local_types=ltypes)
    scx = cx.as_spec()
    try:
        setup_blocks(ex, fi, c)
        ex.verifying_block = name
        stmts = find_block(fi.node, spec['where'])
        st = initial_state(ex, fi, c, cx)
        for n, tys in ltypes.items():
            n = (ex.rename or {}).get(n, n)            # (a renamed local is bound under its new name)
            v = ex.fresh(ex.tenv.parse(tys), n)
            st = st.setvar(n, v)
            for fact in ex.type_facts(v):
                st = st.assume(fact)
            st = ex.assume_allocated(st, v)
        for r in spec.get('requires', []):
            st = st.assume(eval_clause(ex, st, r, scx))
        ex.oblige(st, f'{lab}/vacuity.requires', z3.BoolVal(False), kind='vacuity')
        for ln in spec.get('lemmas', c.lemmas):
            st = st.assume(lemma_formula(ex, ln))
        raises = spec.get('raises', {})
        may = spec.get('may_raise', {})
        st = st.copy(handlers=(tuple(raises.keys()) + tuple(may.keys()),)).snap('old')
        rconds = {k_: eval_clause(ex, st, v_, scx) for k_, v_ in raises.items()}
        outs = exec_block(ex, st, stmts, cx)
        ex.stats['paths'] += len(outs)
        for kind, s, val in outs:
            if kind in ('normal', 'continue'):
                for i, cl in enumerate(spec.get('ensures', [])):
                    ex.oblige(s, f'{lab}/ensures[{i}]', eval_clause(ex, s, cl, scx), kind='ensures', info=dict(clause=cl))
                for knd, cz in rconds.items():
                    ex.oblige(s, f'{lab}/raises[{knd}].onlyif', z3.Not(cz), kind='raises-iff')
                block_frame_check(ex, st, s, spec, cx, lab)
            elif kind == 'raise' and val in rconds:
                ex.oblige(s, f'{lab}/raises[{val}].if', rconds[val], kind='raises-iff')
            elif kind == 'raise' and val in may:
                if isinstance(may[val], str) and may[val] != 'True':
                    ex.oblige(s, f'{lab}/may_raise[{val}].if', eval_clause(ex, st, may[val], scx), kind='raises-iff')
            elif kind == 'return' and 'on_return' in spec:
                # the block may leave the function: what then holds of the returned value and the state
                rt_ = return_type(ex, fi, c)
                if rt_ is not None and rt_.kind != 'none':
                    val = ex.coerce_chk(s, cx, fi.node, val, rt_, f'return value of {fi.key}')
                s2 = s.setvar('result', val)
                for i, cl in enumerate(spec['on_return']):
                    ex.oblige(s2, f'{lab}/on_return[{i}]', eval_clause(ex, s2, cl, scx), kind='ensures', info=dict(clause=cl))
                block_frame_check(ex, st, s, spec, cx, lab)
            else:
                ex.oblige(s, f'{lab}/unexpected[{kind}:{val}]', z3.BoolVal(False), kind='absence')
        add_global_axioms(ex)
        return ex.obs, None
    except VCError as e:
        add_global_axioms(ex)       # the obligations generated before the abort are complete in themselves
        return ex.obs, str(e)
    finally:
        ex.verifying_block = None


def block_frame_check(ex, st0, s_end, spec, cx, lab):
    declared = heap_keys_of_modifies(ex, st0, spec.get('modifies', []), cx)
    al0 = ex.heap_get(st0, 'alloc', z3.ArraySort(z3.IntSort(), z3.BoolSort()))
    for key, arr in s_end.heap.items():
        before = st0.heap.get(key, ex.heap0.get(key))
        if key == 'alloc' or before is None or arr is before or arr.eq(before):
            continue
        refs = declared.get(key, [])
        if refs is None:
            continue
        r = z3.Int('r!fr')
        guard = [z3.Select(al0, r)] + [r != x for x in refs]
        ok = z3.ForAll([r], z3.Implies(z3.And(guard), z3.Select(arr, r) == z3.Select(before, r)))
        ex.oblige(s_end, f'{lab}/frame[{key}]', ok, kind='frame')


_BASE_LOCALS = []


def detect_rename(ex, fi, c):
    """{old: new} if, compared with the committed baseline (baseline/locals.json), exactly one local of the function is
    gone and exactly one is new, and the contract mentions the one that is gone: a pure rename."""
    import json
    import os
    import re
    from .stmts import assigned_names
    if not _BASE_LOCALS:
        pth = os.path.join(os.path.dirname(os.path.dirname(os.path.abspath(__file__))), 'baseline', 'locals.json')
        try:
            _BASE_LOCALS.append(json.load(open(pth)))
        except Exception:  # noqa
            _BASE_LOCALS.append({})
    base = _BASE_LOCALS[0].get(fi.key)
    if not base:
        return {}
    now = assigned_names(fi.node.body) | set(fi.params)
    gone, new = set(base) - now, now - set(base)
    if len(gone) != 1 or len(new) != 1:
        return {}
    g, n = next(iter(gone)), next(iter(new))
    texts = list(c.requires) + list(c.ensures) + [str(v) for v in c.raises.values()] + [str(v) for v in c.may_raise.values()] \
        + list(c.modifies) + list(c.locals)
    for sp in (c.loops or {}).values():
        texts += list(sp.get('inv', [])) + list(sp.get('modifies', [])) + list(sp.get('types', {}))
    for bs in (c.blocks or {}).values():
        for k_ in ('requires', 'ensures', 'on_return', 'modifies'):
            texts += list(bs.get(k_, []))
        texts += list(bs.get('locals', {})) + [str(v) for v in bs.get('raises', {}).values()]
    if not any(re.search(r'\b' + re.escape(g) + r'\b', t) for t in texts):
        return {}
    ex.notes.append(f'{fi.key.split(":")[1]}: local `{g}` was renamed to `{n}`; the contract is read with the new name')
    return {g: n}


def verify_function(ex, fi, c, label=None, chunk=None, block=None):
    """Returns (obligations, error or None).  With a case split the body is executed once per case."""
    ex.cur_fi = fi
    ex.rename = detect_rename(ex, fi, c)
    if block is not None:
        return verify_block(ex, fi, c, block, label)
    allobs = []
    err = None
    if c.cases and (chunk is None or chunk[0] == 0):
        obs, e = cases_cover(ex, fi, c, label)
        allobs += obs
        err = err or e
    for case in case_list(c, chunk):
        obs, e = verify_one(ex, fi, c, label, case)
        if case:
            for ob in obs:
                ob.info['top_case'] = case
        allobs += obs
        err = err or e
    ex.obs = allobs
    return allobs, err


def cases_cover(ex, fi, c, label=None):
    """The top-level case split must be exhaustive under the precondition (one obligation)."""
    ex.cur_fn = fi.key
    ex.cur_contract = c
    ex.cur_fi = fi
    ex.obs = []
    lab = label or c.name or short(fi.key)
    cx = Cx(fi, spec=False, depth=0, contract=c, label=lab)
    scx = cx.as_spec()
    try:
        st = initial_state(ex, fi, c, cx)
        for r in c.requires:
            st = st.assume(eval_clause(ex, st, r, scx))
        alts = []
        for case in case_list(c):
            eqs = []
            for name, val in case.items():
                cur = ex.pure(st, ast.parse(name, mode='eval').body, scx)
                if isinstance(val, bool):
                    eqs.append(ex.truth(st, cur) == z3.BoolVal(val))
                elif isinstance(val, int):
                    eqs.append(ex.coerce(cur, INT).z == I(val))
                else:
                    eqs.append(cur.z == z3.StringVal(val))
            alts.append(z3.And(eqs))
        ex.oblige(st, f'{lab}/cases.exhaustive', z3.Or(alts), kind='ensures',
                  info=dict(clause='the case split covers every state allowed by the precondition'))
        add_global_axioms(ex)
        return ex.obs, None
    except VCError as e:
        add_global_axioms(ex)       # the obligations generated before the abort are complete in themselves
        return ex.obs, str(e)


def materialise_set(ex, st, val, rt):
    """(state, reference to a NEW heap set of type rt whose members are those of the mathematical set `val`)"""
    import z3
    from . import vtypes as T
    ety, src = rt.args[0], val.ty.args[0]
    es = T.sort_of(ety)
    x_ = z3.Const('x!mat', es)
    if T.sort_of(src) == es:
        content = val.z
    elif src.kind == 'union' and ety.kind == 'str':
        content = z3.Lambda([x_], z3.Select(val.z, T.union_datatype().US(x_)))
    elif src.kind == 'union' and ety.kind == 'int':
        content = z3.Lambda([x_], z3.Select(val.z, T.union_datatype().UI(x_)))
    else:
        raise VCError(f'cannot store a set of {src!r} as {rt!r}')
    s2, r = ex.alloc(st, rt, 'setlit')
    key_, srt = ex.skey(ety)
    arr = ex.heap_get(s2, key_, srt)
    return s2.setheap(key_, z3.Store(arr, r.z, content)), r


def verify_one(ex, fi, c, label=None, case=None):
    ex.cur_fn = fi.key
    ex.cur_contract = c
    ex.cur_fi = fi
    ex.obs = []
    lab = label or c.name or short(fi.key)
    cx = Cx(fi, spec=False, depth=0, contract=c, label=lab)
    scx = cx.as_spec()
    try:
        setup_blocks(ex, fi, c)
        st = initial_state(ex, fi, c, cx)
        if case:
            st = bind_case(ex, st, case)
        ex.entry_vars = dict(st.vars)           # (for the native replay of counter-models: the inputs of THIS run)
        for r in c.requires:
            st = st.assume(eval_clause(ex, st, r, scx))
        # vacuity probe: the precondition must be satisfiable (checked before the proved lemmas are added)
        ex.oblige(st, f'{lab}/vacuity.requires', z3.BoolVal(False), kind='vacuity')
        st = lemmas_assumed(ex, st, c, scx)
        allowed = tuple(list(c.raises.keys()) + list(c.may_raise.keys()))
        st = st.copy(handlers=(allowed,)).snap('old')
        # exceptional conditions are evaluated in the pre-state
        rconds = {}
        for kind, cond in list(c.raises.items()) + list(c.may_raise.items()):
            rconds[kind] = eval_clause(ex, st, cond, scx) if isinstance(cond, str) else z3.BoolVal(bool(cond))
        outs = exec_block(ex, st, strip_docstring(fi.node.body), cx)
        ex.stats['paths'] += len(outs)
        rt = return_type(ex, fi, c)
        for kind, s, val in outs:
            if kind in ('normal', 'return'):
                val = val if kind == 'return' else NONE_SV
                s2 = s
                if rt is not None and rt.kind == 'set' and val.ty.kind == 'mset':
                    # a set display / set comprehension returned where a set object is expected: a fresh set with that content
                    s2, val = materialise_set(ex, s2, val, rt)
                if rt is not None and rt.kind != 'none':
                    s2 = s2.setvar('result', ex.coerce_chk(s2, cx, fi.node, val, rt, f'return value of {fi.key}'))
                elif val.ty.kind != 'none' and rt is None:
                    s2 = s2.setvar('result', val)
                # params keep their entry binding in postconditions (Python rebinding is local)
                for n in fi.params:
                    s2 = s2.setvar(n, st.vars[n])
                for gname in c.ghost:
                    s2 = s2.setvar(gname, st.vars[gname])
                for i, cl in enumerate(c.ensures):
                    g = eval_clause(ex, s2, cl, scx)
                    ex.oblige(s2, f'{lab}/ensures[{i}]', g, kind='ensures', info=dict(clause=cl))
                for knd, cz in rconds.items():
                    if knd in c.raises:
                        ex.oblige(s2, f'{lab}/raises[{knd}].onlyif', z3.Not(cz), kind='raises-iff',
                                  info=dict(clause=f'normal termination implies not ({c.raises[knd]})'))
                if not c.no_frame_check:
                    frame_check(ex, st, s2, fi, c, cx, lab)
            elif kind == 'raise':
                if val in rconds:
                    ex.oblige(s, f'{lab}/raises[{val}].if', rconds[val], kind='raises-iff',
                              info=dict(clause=f'{val} raised implies ({c.raises.get(val, c.may_raise.get(val))})'))
                    s2 = s
                    for n in fi.params:
                        s2 = s2.setvar(n, st.vars[n])
                    for i, cl in enumerate(c.ensures_on_raise.get(val, [])):
                        ex.oblige(s2, f'{lab}/ensures_on_raise[{val}][{i}]', eval_clause(ex, s2, cl, scx),
                                  kind='ensures', info=dict(clause=cl))
                else:
                    ex.oblige(s, f'{lab}/unexpected[{val}]', z3.BoolVal(False), kind='absence')
            else:
                raise VCError(f'{kind} escaped the function body')
        add_global_axioms(ex)
        return ex.obs, None
    except VCError as e:
        add_global_axioms(ex)       # the obligations generated before the abort are complete in themselves
        return ex.obs, str(e)


def add_global_axioms(ex):
    if ex.global_axioms:
        ax = tuple(ex.global_axioms)
        for ob in ex.obs:
            if ob.kind != 'vacuity':
                ob.assumptions = tuple(ob.assumptions) + ax


def lemmas_assumed(ex, st, c, scx):
    for ln in c.lemmas:
        st = st.assume(lemma_formula(ex, ln))
    # explicit instances of (separately proved) lemmas at terms named by the contract
    for ln, binding in c.lemma_instances:
        bound, body = lemma_body(ex, ln)
        pairs = []
        for var, src in binding.items():
            v = ex.pure(st, ast.parse(src, mode='eval').body, scx)
            pairs.append((bound[var].z, ex.coerce(v, bound[var].ty).z))
        missing = [n for n in bound if n not in binding]
        inst_ = z3.substitute(body, *pairs)
        if missing:
            inst_ = z3.ForAll([bound[n].z for n in missing], inst_)
        st = st.assume(inst_)
    return st


def lemma_body(ex, name):
    """(bound variables, body) of a lemma, body = hyps -> concl over free constants"""
    lm = ex.reg.lemmas[name]
    cx = Cx(None, spec=True)
    cx.module = None
    bound = {}
    for n, tys in lm.vars.items():
        ty = ex.tenv.parse(tys)
        bound[n] = SV(ty, z3.Const(f'{n}!lm_{name}', T.sort_of(ty)))
    cx.spec_vars = bound
    st = State()
    hyps = [eval_clause(ex, st, h, cx) for h in lm.hyps]
    for n, (lo, hi) in lm.ranges.items():
        hyps += [bound[n].z >= lo, bound[n].z <= hi]
    concl = [eval_clause(ex, st, h, cx) for h in lm.concl]
    return bound, z3.Implies(z3.And(hyps) if hyps else z3.BoolVal(True), z3.And(concl))


def lemma_formula(ex, name):
    lm = ex.reg.lemmas[name]
    cx = Cx(None, spec=True)
    cx.module = None
    bound = {}
    for n, tys in lm.vars.items():
        ty = ex.tenv.parse(tys)
        bound[n] = SV(ty, z3.Const(f'{n}!lm_{name}', T.sort_of(ty)))
    cx.spec_vars = bound
    st = State()
    hyps = [eval_clause(ex, st, h, cx) for h in lm.hyps]
    for n, (lo, hi) in lm.ranges.items():
        hyps += [bound[n].z >= lo, bound[n].z <= hi]
    concl = [eval_clause(ex, st, h, cx) for h in lm.concl]
    body = z3.Implies(z3.And(hyps) if hyps else z3.BoolVal(True), z3.And(concl))
    if not bound:
        return body
    pats = []
    if lm.triggers:
        for tg in lm.triggers:
            terms = [ex.pure(st, ast.parse(t, mode='eval').body, cx).z for t in (tg if isinstance(tg, (list, tuple)) else [tg])]
            pats.append(z3.MultiPattern(*terms) if len(terms) > 1 else terms[0])
    return z3.ForAll([v.z for v in bound.values()], body, patterns=pats)


def frame_check(ex, st0, s_end, fi, c, cx, lab):
    """Heap components changed by the body but not covered by `modifies` must be unchanged on every object
    that was allocated at entry (objects allocated by the body are the function's own)."""
    declared = heap_keys_of_modifies(ex, st0, c.modifies, cx)
    al0 = ex.heap_get(st0, 'alloc', z3.ArraySort(z3.IntSort(), z3.BoolSort()))
    for key, arr in s_end.heap.items():
        before = st0.heap.get(key, ex.heap0.get(key))
        if key == 'alloc' or before is None or arr is before or arr.eq(before):
            continue
        refs = declared.get(key, [])
        if refs is None:
            continue
        r = z3.Int('r!fr')
        if fi.node.name == '__init__' and fi.cls is not None:
            refs = list(refs) + [st0.vars['self'].z]
        guard = [z3.Select(al0, r)] + [r != x for x in refs]
        ok = z3.ForAll([r], z3.Implies(z3.And(guard), z3.Select(arr, r) == z3.Select(before, r)))
        ex.oblige(s_end, f'{lab}/frame[{key}]', ok, kind='frame')
