"""./check CLI: exit 0 held / 1 violation (+VIOLATION line) / 2 undecided / 3 checker crash."""
import argparse
import json
import os
import sys
import time
import traceback

VERIF = os.path.dirname(os.path.dirname(os.path.abspath(__file__)))
sys.path.insert(0, VERIF)

from pyvc import run as R  # noqa

LEVELS = {'C15': 'other'}


def main():
    ap = argparse.ArgumentParser()
    ap.add_argument('pid')
    ap.add_argument('--tier', default=os.environ.get('VERIF_TIER', 'quick'))
    ap.add_argument('--only', default=None)
    ap.add_argument('--jobs', type=int, default=None)
    ap.add_argument('--replay', default=None)
    ap.add_argument('-v', action='store_true')
    a = ap.parse_args()
    if a.replay:
        print(open(a.replay).read())
        return 0
    seed = int(os.environ.get('VERIF_SEED', '0') or 0)
    tier = a.tier if a.tier in ('quick', 'thorough') else 'quick'
    try:
        res = R.run(a.pid, tier, seed=seed, jobs=a.jobs, only=a.only, verbose=a.v)
        from pyvc.report import report
        return report(res, verbose=a.v, partial=bool(a.only))
    except Exception:
        traceback.print_exc()
        return R.EXIT_CRASH


if __name__ == '__main__':
    sys.exit(main())
