"""Explicit quantifier / definition instantiation (the `quantifier discipline` of DESIGN.md 2.1).

Quantified hypotheses are instantiated at the ground terms of the query that match their patterns, defined
(spec-level recursive) functions are unfolded at the applications that occur, both for a bounded number of rounds;
what is handed to the solver is quantifier-free.  Fewer hypotheses can only lose proofs, never soundness: a
`sat` answer of the weakened query is re-checked against the full query before it is believed.
"""
import z3

DEFS = {}      # function name -> (decl, [formal consts], body)   side definitions of spec functions


def define(decl, formals, body):
    DEFS[decl.name()] = (decl, formals, body)


def subterms(es):
    seen = {}
    stack = list(es)
    while stack:
        t = stack.pop()
        i = t.get_id()
        if i in seen:
            continue
        seen[i] = t
        if z3.is_app(t):
            stack.extend(t.children())
        elif z3.is_quantifier(t):
            pass   # do not descend: bound variables
    return list(seen.values())


def match(pat, term, nvars, sub):
    """first-order matching of a pattern (with de-Bruijn variables) against a ground term"""
    if z3.is_var(pat):
        idx = z3.get_var_index(pat)
        if idx in sub:
            return sub[idx].eq(term)
        if pat.sort() != term.sort():
            return False
        sub[idx] = term
        return True
    if not z3.is_app(pat) or not z3.is_app(term):
        return pat.eq(term)
    if not pat.decl().eq(term.decl()) or pat.num_args() != term.num_args():
        # arithmetic offset pattern  (x + c)  against a numeral or other term: no
        return False
    for a, b in zip(pat.children(), term.children()):
        if not match(a, b, nvars, sub):
            return False
    return True


def quantifier_patterns(q):
    pats = []
    for i in range(q.num_patterns()):
        p = q.pattern(i)
        ctx = p.ctx
        nt = z3.Z3_get_pattern_num_terms(ctx.ref(), p.ast)
        pats.append([z3.z3._to_expr_ref(z3.Z3_get_pattern(ctx.ref(), p.ast, j), ctx) for j in range(nt)])
    if pats:
        return pats
    # infer: applications of uninterpreted functions / selects mentioning bound variables
    n = q.num_vars()
    cands = []
    stack = [q.body()]
    seen = set()
    while stack:
        t = stack.pop()
        if t.get_id() in seen:
            continue
        seen.add(t.get_id())
        if z3.is_app(t):
            k = t.decl().kind()
            if (k == z3.Z3_OP_UNINTERPRETED and t.num_args() > 0) or k == z3.Z3_OP_SELECT:
                vs = vars_of(t)
                if vs:
                    cands.append((t, vs))
            stack.extend(t.children())
    full = [[t] for t, vs in cands if len(vs) == n]
    if full:
        # prefer smaller terms
        full.sort(key=lambda p: len(str(p[0])))
        return full[:4]
    return []


def vars_of(t):
    out = set()
    stack = [t]
    seen = set()
    while stack:
        x = stack.pop()
        if x.get_id() in seen:
            continue
        seen.add(x.get_id())
        if z3.is_var(x):
            out.add(z3.get_var_index(x))
        elif z3.is_app(x):
            stack.extend(x.children())
    return out


def head_key(t):
    d = t.decl()
    return (d.name(), t.num_args())


def collect(es, seen, index):
    """add the (not yet seen) application subterms of es to the per-head index; returns the new terms"""
    new = []
    stack = list(es)
    while stack:
        t = stack.pop()
        i = t.get_id()
        if i in seen:
            continue
        seen.add(i)
        if z3.is_app(t):
            n = t.num_args()
            if n > 0:
                index.setdefault(head_key(t), []).append(t)
                new.append(t)
                for k in range(n):
                    stack.append(t.arg(k))
    return new


def definitional(fresh, index, unfold=True):
    """facts that follow from definitions alone, for the application terms that appeared in the previous round"""
    new = []
    p2all = index.get(('pow2', 1), [])
    for t in fresh:
        nm = t.decl().name()
        if nm == 'pow2' and t.num_args() == 1:
            new += pow2_facts(t, p2all)
        elif nm in DEFS and unfold:
            decl, formals, body = DEFS[nm]
            if decl.eq(t.decl()):
                new.append(t == z3.substitute(body, *[(f, t.arg(k)) for k, f in enumerate(formals)]))
        # division / remainder / product by a symbolic power of two that turns out to be 1 (exponent 0)
        if not unfold and nm in ('pdiv', 'pmod', 'pmul') and t.num_args() == 2 and not z3.is_int_value(t.arg(1)):
            new.append(z3.Implies(t.arg(1) == 1, t == (z3.IntVal(0) if nm == 'pmod' else t.arg(0))))
        # x mod 2**k lies in [0, 2**k)
        if nm == 'pmod' and t.num_args() == 2 and z3.is_app(t.arg(1)) and t.arg(1).decl().name() == 'pow2':
            new.append(z3.And(t >= 0, t < t.arg(1)))
    return new


ROUNDS = [2]


def instantiate(quants, ground, rounds=None, max_inst=4000):
    rounds = rounds or ROUNDS[0]
    insts = []
    seen_inst = set()
    qinfo = []
    for q in quants:
        if not (z3.is_quantifier(q) and q.is_forall()):
            continue
        pats = quantifier_patterns(q)
        if pats:
            qinfo.append((q, q.num_vars(), pats))
    seen = set()
    index = {}
    fresh = collect(ground, seen, index)
    table_added = False
    for _ in range(rounds):
        new = definitional(fresh, index)
        # quantifier instantiation by matching (patterns are indexed by their head symbol)
        fresh_ids = {t.get_id() for t in fresh}
        for q, n, pats in qinfo:
            for pat in pats:
                if len(pat) != 1:
                    subs = multi_match(pat, index, n)
                else:
                    subs = []
                    p0 = pat[0]
                    if not z3.is_app(p0):
                        continue
                    for t in index.get(head_key(p0), []):
                        if t.get_id() not in fresh_ids:
                            continue
                        sub = {}
                        if match(p0, t, n, sub) and len(sub) == n:
                            subs.append(sub)
                for sub in subs:
                    args = [sub[i] for i in range(n)]       # indexed by de-Bruijn index
                    key = (q.get_id(),) + tuple(a.get_id() for a in args)
                    if key in seen_inst:
                        continue
                    seen_inst.add(key)
                    new.append(z3.substitute_vars(q.body(), *args))
                if len(insts) + len(new) > max_inst:
                    break
        if not new:
            break
        insts += new
        fresh = collect(new, seen, index)
    else:
        # the terms of the last round still get their definitional facts (no further matching)
        last = definitional(fresh, index, unfold=False)
        insts += last
    return insts


def multi_match(pats, index, n):
    subs = [{}]
    for p in pats:
        nxt = []
        cands = index.get(head_key(p), []) if z3.is_app(p) else []
        for s0 in subs:
            for t in cands:
                s1 = dict(s0)
                if match(p, t, n, s1):
                    nxt.append(s1)
        subs = nxt
        if len(subs) > 2000:
            break
    return [s for s in subs if len(s) == n]


def pow2_facts(t, others):
    """Facts about 2**k used instead of unfolding the 73-entry table: positivity, the exact value for a numeral
    exponent, and pow2(a) == 2**(a-b) * pow2(b) for two occurring exponents at a constant non-negative distance."""
    k = t.arg(0)
    out = [t >= 1]
    ks = z3.simplify(k)
    if z3.is_int_value(ks) and 0 <= ks.as_long() <= 72:
        out.append(t == z3.IntVal(2 ** ks.as_long()))
        return out
    for o in others:
        if o.get_id() == t.get_id():
            continue
        d = z3.simplify(k - o.arg(0))
        if z3.is_int_value(d) and 0 < d.as_long() <= 72:
            out.append(z3.Implies(o.arg(0) >= 0, t == z3.IntVal(2 ** d.as_long()) * o))
    return out
