"""Static types of symbolic values and their SMT sorts."""
import ast
import z3


class Ty:
    __slots__ = ('kind', 'args')

    def __init__(self, kind, *args):
        self.kind = kind
        self.args = tuple(args)

    def __eq__(self, o):
        return isinstance(o, Ty) and self.kind == o.kind and self.args == o.args

    def __hash__(self):
        return hash((self.kind, self.args))

    def __repr__(self):
        if not self.args:
            return self.kind
        if self.kind == 'opt':
            return f'{self.args[0]!r}?'
        if self.kind in ('ref', 'enum'):
            return str(self.args[0])
        if self.kind == 'list' and len(self.args) == 2:
            return self.args[1]
        return f'{self.kind}[{",".join(map(repr, self.args))}]'


INT = Ty('int')
BOOL = Ty('bool')
STR = Ty('str')
NONE = Ty('none')
FLOAT = Ty('float')
BYTEARRAY = Ty('list', INT, 'bytearray')       # mutable; elements range-checked at stores (ValueError)
BYTES = Ty('list', INT, 'bytes')  # immutable byte string: a list object that the subset never mutates
SIO = Ty('list', INT, 'sio')      # io.StringIO: the list of the TOKENS written to it (see methods.sio_write)
OPAQUE = Ty('opaque')             # values never inspected (line ids, match objects ...)
FN = Ty('fn')                     # a function value of the operator module (its code)
CFG = Ty('cfg')                   # a node of the parsed YAML/JSON configuration (dict / list / scalar), read-only


def ref(c): return Ty('ref', c)
def enum(c): return Ty('enum', c)
def lst(e): return Ty('list', e)
def dct(k, v): return Ty('dict', k, v)
def sett(e): return Ty('set', e)
def seq(e): return Ty('seq', e)
def mset(e): return Ty('mset', e)
def mmap(k, v): return Ty('map', k, v)
def tup(*ts): return Ty('tuple', *ts)


def opt(t):
    if t.kind in ('opt', 'none'):
        return t
    return Ty('opt', t)


def is_reflike(t):
    return t.kind in ('ref', 'list', 'dict', 'set', 'opaque', 'cfg', 'match')


_dt_cache = {}


def opt_datatype(inner_sort):
    key = ('opt', str(inner_sort))
    if key not in _dt_cache:
        d = z3.Datatype('Opt_' + str(inner_sort).replace(' ', '_').replace('(', '_').replace(')', '_'))
        d.declare('none')
        d.declare('some', ('val', inner_sort))
        _dt_cache[key] = d.create()
    return _dt_cache[key]


def tuple_datatype(sorts):
    key = ('tuple',) + tuple(str(s) for s in sorts)
    if key not in _dt_cache:
        nm = 'Tup_' + '_'.join(str(s).replace(' ', '_').replace('(', '_').replace(')', '_') for s in sorts)
        d = z3.Datatype(nm)
        d.declare('mk', *[(f'f{i}', s) for i, s in enumerate(sorts)])
        _dt_cache[key] = d.create()
    return _dt_cache[key]


_union = []


def union_datatype():
    """int | str | object reference | None  (values whose static type is a small union)"""
    if not _union:
        d = z3.Datatype('PyUnion')
        d.declare('UN')
        d.declare('UI', ('ui', z3.IntSort()))
        d.declare('US', ('us', z3.StringSort()))
        d.declare('UR', ('ur', z3.IntSort()))
        _union.append(d.create())
    return _union[0]


def sort_of(t):
    k = t.kind
    if k == 'union':
        return union_datatype()
    if k == 'match':
        return z3.IntSort()
    if k == 'version':
        return z3.RealSort()
    if k == 'fn':
        return z3.IntSort()
    if k in ('int', 'enum') or is_reflike(t):
        return z3.IntSort()
    if k == 'bool':
        return z3.BoolSort()
    if k == 'str':
        return z3.StringSort()
    if k == 'float':
        return z3.RealSort()
    if k == 'seq':
        return z3.SeqSort(sort_of(t.args[0]))
    if k == 'mset':
        return z3.ArraySort(sort_of(t.args[0]), z3.BoolSort())
    if k == 'arr':
        return z3.ArraySort(z3.IntSort(), sort_of(t.args[0]))
    if k == 'map':
        return z3.ArraySort(sort_of(t.args[0]), sort_of(t.args[1]))
    if k == 'opt':
        inner = t.args[0]
        if is_reflike(inner):
            return z3.IntSort()
        return opt_datatype(sort_of(inner))
    if k == 'tuple':
        return tuple_datatype([sort_of(a) for a in t.args])
    raise TypeError(f'no sort for type {t!r}')


def sort_name(s):
    return str(s).replace(' ', '')


class TypeEnv:
    """Parses type strings / annotations against the class table of the repository."""

    def __init__(self, repo):
        self.repo = repo

    def parse(self, s):
        if isinstance(s, Ty):
            return s
        if isinstance(s, str):
            s = s.strip()
            if s.endswith('?'):
                return opt(self.parse(s[:-1]))
            node = ast.parse(s, mode='eval').body
        else:
            node = s
        return self.from_ast(node)

    def from_ast(self, n):
        if n is None:
            return None
        if isinstance(n, ast.Constant):
            if n.value is None:
                return NONE
            if isinstance(n.value, str):
                return self.parse(n.value)
        if isinstance(n, ast.Name):
            nm = n.id
            prim = {'int': INT, 'bool': BOOL, 'str': STR, 'float': FLOAT, 'bytearray': BYTEARRAY,
                    'bytes': BYTES, 'None': NONE, 'opaque': OPAQUE, 'cfg': CFG, 'union': Ty('union'), 'sio': SIO,
                    'version': Ty('version'),
                    'match': Ty('match')}
            if nm in prim:
                return prim[nm]
            if nm in ('dict', 'cfg'):
                return CFG
            if nm in ('list', 'set'):
                return None
            if nm in self.repo.classes:
                ci = self.repo.classes[nm]
                if ci.is_enum:
                    return enum(nm)
                return ref(nm)
            return None
        if isinstance(n, ast.Attribute):
            # e.g. re.Pattern, LabelScope.LabelInfo
            if n.attr in self.repo.classes:
                return ref(n.attr)
            return OPAQUE
        if isinstance(n, ast.Subscript):
            base = n.value.id if isinstance(n.value, ast.Name) else None
            sl = n.slice
            elts = sl.elts if isinstance(sl, ast.Tuple) else [sl]
            args = [self.from_ast(e) for e in elts]
            if any(a is None for a in args):
                return None
            if base == 'list':
                return lst(args[0])
            if base == 'seq':
                return seq(args[0])
            if base == 'arr':
                return Ty('arr', args[0])
            if base == 'union':
                return Ty('union', args[0].args[0]) if args[0].kind == 'ref' else Ty('union')
            if base == 'set':
                return sett(args[0])
            if base == 'mset':
                return mset(args[0])
            if base == 'dict':
                return dct(args[0], args[1])
            if base == 'map':
                return mmap(args[0], args[1])
            if base == 'tuple':
                return tup(*args)
            if base == 'Optional':
                return opt(args[0])
            return None
        if isinstance(n, ast.BinOp) and isinstance(n.op, ast.BitOr):
            l, r = self.from_ast(n.left), self.from_ast(n.right)
            if r == NONE and l is not None:
                return opt(l)
            if l == NONE and r is not None:
                return opt(r)
            return None
        return None
