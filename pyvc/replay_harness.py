"""Worker side of the native replay: concrete inputs for the real function out of a z3 counter-model.

Only whole-function obligations of methods whose receiver fields and parameters have simple types can be replayed
(ints, bools, strings, optional ints, bytearrays / lists of ints): the receiver is rebuilt with `cls.__new__` and those
fields.  Everything else (object-valued parameters, uninterpreted spec functions in the contract) is reported as
"no native replay for this obligation" and the VIOLATION line keeps its `no-failing-input-found` suffix."""
import z3

from . import vtypes as T

SIMPLE = ('int', 'bool', 'str')


def _pyval(m, z, ty):
    v = m.eval(z, model_completion=True)
    if ty.kind == 'int':
        return v.as_long() if z3.is_int_value(v) else None
    if ty.kind == 'bool':
        return bool(z3.is_true(v))
    if ty.kind == 'str':
        return v.as_string() if z3.is_string_value(v) else None
    return None


def _value(ex, m, sv):
    """python value (JSON-able) of a symbolic value in the ENTRY state, or raise KeyError if its type is out of reach"""
    ty = sv.ty
    if ty.kind in SIMPLE:
        v = _pyval(m, sv.z, ty)
        if v is None:
            raise KeyError(ty)
        return v
    if ty.kind == 'opt' and ty.args[0].kind in SIMPLE:
        dt = T.sort_of(ty)
        if z3.is_true(m.eval(dt.is_some(sv.z), model_completion=True)):
            v = _pyval(m, dt.val(sv.z), ty.args[0])
            if v is None:
                raise KeyError(ty)
            return v
        return None
    if ty.kind == 'list' and ty.args[0].kind == 'int':
        lk, nk = ex.lkey_of(ty), ex.lenkey_of(ty)
        if lk not in ex.heap0 or nk not in ex.heap0:
            raise KeyError(ty)
        n = m.eval(z3.Select(ex.heap0[nk], sv.z), model_completion=True)
        if not z3.is_int_value(n) or not (0 <= n.as_long() <= 256):
            raise KeyError(ty)
        arr = z3.Select(ex.heap0[lk], sv.z)
        xs = [m.eval(z3.Select(arr, z3.IntVal(j)), model_completion=True).as_long() for j in range(n.as_long())]
        mark = ty.args[1] if len(ty.args) > 1 else ''
        return {'bytearray': xs} if mark in ('bytearray', 'bytes') else {'list': xs}
    if ty.kind == 'opt' and T.is_reflike(ty.args[0]):
        if z3.is_true(m.eval(sv.z == 0, model_completion=True)):
            return None
    raise KeyError(ty)


def extract(ex, fi, c, entry_vars, m):
    """-> request dict for pyvc/native/replay_run.py, or None"""
    if m is None or fi.cls is None or fi.kind not in ('method', 'setter') or 'self' not in entry_vars:
        return None
    from .engine import SV
    selfv = entry_vars['self']
    fields = {}
    try:
        for cname in ex.repo.mro(fi.cls.name):
            for fname, tys in ex.reg.fields.get(cname, {}).items():
                ft = ex.tenv.parse(tys)
                key = ex.fkey(fname, ft)
                if key not in ex.heap0:
                    continue            # the function never reads it
                try:
                    fields[fname] = _value(ex, m, SV(ft, z3.Select(ex.heap0[key], selfv.z)))
                except KeyError:
                    if fi.node.name == '__init__':
                        continue
                    return None
        args = {}
        for p in fi.params[1:]:
            args[p] = _value(ex, m, entry_vars[p])
    except KeyError:
        return None
    cmod = None
    for mod in ('contracts.' + n for n in _contract_modules()):
        cmod = cmod or mod
    ci = ex.reg.contracts[fi.key].index(c)
    return dict(module=fi.module, cls=fi.cls.name, method=fi.node.name, kind=fi.kind, fields=fields, args=args,
                contract_module='contracts.common', key=fi.key, contract_index=ci)


def _contract_modules():
    import os
    d = os.path.join(os.path.dirname(os.path.dirname(os.path.abspath(__file__))), 'contracts')
    return sorted(f[:-3] for f in os.listdir(d) if f.endswith('.py') and f != '__init__.py')
