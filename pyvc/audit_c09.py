"""C09 (whole-word substitution): mechanical audit of HOW Preprocessor.resolve_symbols rewrites the line.

The fix-point and duplicate rules are proved from contracts; that each single substitution step is a WHOLE-WORD
substitution is a fact about the library call used.  The audit re-reads the current source and accepts only
    line_str = re.sub(f'\\b{re.escape(<symbol>)}\\b', <constant replacement>, line_str)
as a rewrite of the line inside the function; any other assignment to the line built from str.replace, slicing,
concatenation or a pattern without both word boundaries is reported."""
import ast

KEY = 'bespokeasm.assembler.preprocessor:Preprocessor.resolve_symbols'


def run_audit(repo):
    fi = repo.funcs.get(KEY)
    if fi is None:
        return [dict(name='substitution-step/anchor', verdict='undecided', detail='resolve_symbols not found')]
    sites = []
    line_param = fi.params[2] if len(fi.params) > 2 else 'line_str'
    for n in ast.walk(fi.node):
        if isinstance(n, (ast.Assign, ast.AugAssign)):
            targets = n.targets if isinstance(n, ast.Assign) else [n.target]
            if not any(isinstance(t, ast.Name) and t.id == line_param for t in targets):
                continue
            v = n.value
            ok = False
            why = ast.unparse(v)[:80]
            if isinstance(v, ast.Call) and ast.unparse(v.func) == 're.sub' and len(v.args) == 3 \
                    and ast.unparse(v.args[2]) == line_param and isinstance(v.args[0], ast.JoinedStr):
                parts = v.args[0].values
                if len(parts) == 3 and isinstance(parts[0], ast.Constant) and parts[0].value == '\\b' \
                        and isinstance(parts[2], ast.Constant) and parts[2].value == '\\b' \
                        and isinstance(parts[1], ast.FormattedValue) and ast.unparse(parts[1].value).startswith('re.escape('):
                    ok = True
            sites.append(dict(name=f'substitution-step/line {n.lineno}', verdict='ok' if ok else 'violation',
                              detail=('whole-word substitution via re.sub(\\b<escaped symbol>\\b, ...)' if ok else
                                      f'the line is rewritten by something other than a whole-word re.sub: {why}')))
    if not sites:
        sites.append(dict(name='substitution-step/none', verdict='undecided', detail='no rewrite of the line found'))
    return sites
