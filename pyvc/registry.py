"""Sidecar contract registry.  Nothing here is imported by /repo."""
import ast


class Contract:
    def __init__(self, key, **kw):
        self.key = key
        self.props = kw.pop('props', [])
        self.params = kw.pop('params', {})          # name -> type string (overrides annotation)
        self.returns = kw.pop('returns', None)      # type string
        self.requires = kw.pop('requires', [])
        self.ensures = kw.pop('ensures', [])
        self.raises = kw.pop('raises', {})          # kind -> condition over the pre-state; raised IFF condition
        self.may_raise = kw.pop('may_raise', {})    # kind -> condition; raised ONLY IF condition (no converse)
        self.ensures_on_raise = kw.pop('ensures_on_raise', {})  # kind -> [clauses]
        self.modifies = kw.pop('modifies', [])
        self.allocates = kw.pop('allocates', False)
        self.loops = kw.pop('loops', {})            # ordinal -> dict(inv=[..], idx=.., decreases=..)
        self.locals = kw.pop('locals', {})          # local name -> type string
        self.ghost = kw.pop('ghost', {})            # ghost parameter name -> type string
        self.covers_overrides = kw.pop('covers_overrides', False)   # dynamic dispatch may use this contract for every override
        self.assumed = kw.pop('assumed', False)     # trusted: used at call sites, body not verified
        self.assumed_reason = kw.pop('reason', '')
        self.lemma_instances = kw.pop('lemma_instances', [])   # [(lemma name, {lemma var: spec expr over params})]
        self.lemmas = kw.pop('lemmas', [])          # names of lemmas whose statements are assumed in this function
        self.using = kw.pop('using', {})            # obligation-name substring -> list of instantiation hints
        self.inline_depth = kw.pop('inline_depth', 3)
        self.decreases = kw.pop('decreases', None)
        self.no_frame_check = kw.pop('no_frame_check', False)
        self.timeout = kw.pop('timeout', None)
        self.block = kw.pop('block', None)          # verify only this loop ordinal of the function (block contract)
        self.blocks_only = kw.pop('blocks_only', False)   # only the block contracts are verified (the rest of the body is outside the subset)
        self.blocks = kw.pop('blocks', {})          # name -> dict(where=, requires=, ensures=, modifies=, locals=, raises=)
        self.split = kw.pop('split', None)          # [(obligation-name substring, {expr: (lo, hi)})]: solver-side case split
        self.cases = kw.pop('cases', None)          # name -> list of concrete values: top-level case split
        self.case_chunk = kw.pop('case_chunk', None)  # which case key splits work across processes
        self.regex_facts = kw.pop('regex_facts', None)   # pattern source text -> groups present in every match (trusted)
        self.only_for = kw.pop('only_for', None)      # property -> obligation-name substrings: for that property only these obligations are run
        self.assume_pre = kw.pop('assume_pre', None)  # callee short name -> reason: its requires are assumed at calls from here
        self.name = kw.pop('name', None)            # label used in obligation names (defaults to function short name)
        if kw:
            raise TypeError(f'unknown contract keys {sorted(kw)} for {key}')


class Lemma:
    def __init__(self, name, vars, hyps, concl, by='smt', **kw):
        self.name = name
        self.vars = vars          # name -> type string
        self.hyps = hyps          # [expr strings]
        self.concl = concl        # [expr strings]
        self.by = by              # 'smt' | 'bv16' | 'bv32' | 'axiom' (trusted, validated by sampling)
        self.reason = kw.get('reason', '')
        self.triggers = kw.get('triggers', None)
        self.props = kw.get('props', [])
        self.induct = kw.get('induct')
        self.uses = kw.get('uses', [])       # earlier lemmas assumed in this lemma's proof
        self.sample = kw.get('sample', {})   # by='axiom': var -> (lo, hi) sampling window (NOT a hypothesis)
        self.cases = kw.get('cases')      # var -> iterable of ints: the lemma is proved once per combination
        self.rounds = kw.get('rounds', 2)
        self.ubounds = kw.get('ubounds', {})   # by='bv': var -> inclusive upper bound (int or function of the case values)
        self.ranges = kw.get('ranges', {})   # name -> (lo, hi) inclusive, for by='enum' and as implicit hypotheses


class Registry:
    def __init__(self):
        self.contracts = {}     # key -> [Contract]  (several allowed: one per property / block)
        self.specs = {}         # name -> (FunctionDef ast, python callable, meta)
        self.fields = {}        # class name -> {field: type string}
        self.lemmas = {}
        self.classes_meta = {}  # class name -> dict(invariant=[...])
        self.opaque_consts = {}  # module-level constant name -> type string (value abstracted: a named symbol)
        self.spec_sources = {}

    def contract(self, key, **kw):
        c = Contract(key, **kw)
        self.contracts.setdefault(key, []).append(c)
        return c

    def primary(self, key):
        """The contract used at call sites: the first non-block contract registered for key."""
        cs = [c for c in self.contracts.get(key, []) if c.block is None and not c.blocks_only]
        for c in cs:
            if c.name and c.name.startswith('abs:'):
                return c
        return cs[0] if cs else None

    def declare_fields(self, cls, **fields):
        self.fields.setdefault(cls, {}).update(fields)

    def declare_const(self, name, ty):
        self.opaque_consts[name] = ty

    def lemma(self, name, vars, hyps, concl, by='smt', **kw):
        self.lemmas[name] = Lemma(name, vars, hyps, concl, by, **kw)

    def spec(self, fn=None, **meta):
        """Decorator registering a pure spec function written in the accepted Python subset."""
        import inspect
        import textwrap

        def reg(f):
            src = textwrap.dedent(inspect.getsource(f))
            tree = ast.parse(src).body[0]
            tree.decorator_list = []
            self.specs[f.__name__] = (tree, f, meta)
            return f
        if fn is not None:
            return reg(fn)
        return reg


REG = Registry()
contract = REG.contract
declare_fields = REG.declare_fields
lemma = REG.lemma
declare_const = REG.declare_const
spec = REG.spec


# helpers usable when spec functions are executed natively
def implies(a, b):
    return (not a) or b


def forall_range(lo, hi, f):
    return all(f(i) for i in range(lo, hi))
