"""Native replay of counter-models (filled in per property)."""


def try_replay(pid, e):
    return None, False, '(no native replay harness for this obligation yet)'
