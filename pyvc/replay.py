"""Native replay of counter-models.

For a refuted whole-function obligation whose inputs are of simple types (pyvc/replay_harness.py) the real method is run
by the repository's interpreter on the solver's inputs and the contract's own clauses are evaluated on the observed
pre- and post-state (pyvc/native/replay_run.py).  If a clause fails natively the violation is reported with that
concrete input; otherwise the replay file carries the solver's model and the VIOLATION line ends no-failing-input-found.
"""
import hashlib
import json
import os
import subprocess

VERIF = os.path.dirname(os.path.dirname(os.path.abspath(__file__)))


def try_replay(pid, e):
    reqs = e.get('replay_inputs') or []
    if not reqs:
        return None, False, '(no native replay for this obligation: inputs are not of simple types, or it is a block / loop obligation)'
    src = os.environ.get('PYVC_REPO_SRC', '/repo/src')
    d = os.path.join(VERIF, 'replays', pid)
    os.makedirs(d, exist_ok=True)
    h = hashlib.sha1(e['name'].encode()).hexdigest()[:12]
    notes = []
    for n, req in enumerate(reqs[:4]):
        rq = os.path.join(d, f'{h}.input{n}.json')
        with open(rq, 'w') as f:
            json.dump(req, f, indent=1)
        cmd = ['/venv/bin/python', os.path.join(VERIF, 'pyvc', 'native', 'replay_run.py'), rq]
        env = dict(os.environ, PYTHONPATH=src + os.pathsep + VERIF)
        try:
            p = subprocess.run(cmd, capture_output=True, text=True, env=env, timeout=120, cwd=d)
            out = json.loads(p.stdout.strip().splitlines()[-1])
        except Exception as ex:  # noqa
            notes.append(f'(native replay of input {n} did not run: {ex!r})')
            continue
        if out.get('unsupported'):
            notes.append(f'(native replay of input {n} not possible: {out["unsupported"]})')
            continue
        if out.get('failed') and out.get('precondition_holds', True):
            fn = os.path.join(d, f'{h}.replay.txt')
            with open(fn, 'w') as f:
                f.write(f'property: {pid}\nfailed obligation: {e["name"]}\nclause: {e.get("clause")}\n\n'
                        f'REPLAYED on the real code ({src}):\n  PYTHONPATH={src}:{VERIF} {" ".join(cmd)}\n\n'
                        f'receiver {req["cls"]} {out.get("receiver", "(state of the counter-model)")}\n  fields before the call: {json.dumps(out.get("pre_fields"))}\ncall: {req["method"]}({json.dumps(req["args"])})\n'
                        f'observed: {out["outcome"]}, result {json.dumps(out.get("result"))}\n'
                        f'state after: {json.dumps(out.get("post_fields"))}\n\ncontract clauses that FAIL on this run:\n  '
                        + '\n  '.join(out['failed']) + '\n')
            return fn, True, ''
        notes.append(f'(input {n} replayed natively: the real code satisfies every clause on it -- the counter-model is not '
                     f'a failing input of the real code: {json.dumps(req["args"])})')
    return None, False, '\n'.join(notes)
