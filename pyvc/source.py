"""Mechanical extraction of the real source of /repo.

Every run re-parses the working tree; nothing is cached across runs.  What is
dropped: comments, docstrings, type annotations (kept as hints), __str__/__repr__
bodies.  Functions are keyed ``module:Class.method`` / ``module:function`` /
``module:Class.prop.setter``.
"""
import ast
import hashlib
import os

REPO_SRC = os.environ.get('PYVC_REPO_SRC', '/repo/src')


class ClassInfo:
    def __init__(self, name, module, node):
        self.name = name
        self.module = module
        self.node = node
        self.base_names = []
        self.methods = {}      # name -> FunctionDef
        self.getters = {}      # property name -> FunctionDef
        self.setters = {}      # property name -> FunctionDef
        self.consts = {}       # class-level assignments name -> ast expr
        self.is_enum = False
        self.enum_members = {}  # name -> int
        self.classmethods = set()
        self.staticmethods = set()


class FuncInfo:
    def __init__(self, key, node, module, cls=None, kind='function'):
        self.key = key
        self.node = node
        self.module = module
        self.cls = cls          # ClassInfo or None
        self.kind = kind        # function | method | getter | setter | classmethod | staticmethod

    @property
    def params(self):
        a = self.node.args
        return [x.arg for x in a.posonlyargs + a.args]

    def body_hash(self):
        body = strip_docstring(self.node.body)
        txt = '\n'.join(ast.dump(s, annotate_fields=False, include_attributes=False) for s in body)
        return hashlib.sha256(txt.encode()).hexdigest()[:16]


def strip_docstring(body):
    if body and isinstance(body[0], ast.Expr) and isinstance(body[0].value, ast.Constant) \
            and isinstance(body[0].value.value, str):
        return body[1:]
    return body


class Repo:
    def __init__(self, root=None):
        self.root = root or REPO_SRC
        self.modules = {}     # modname -> dict(ast=, path=, consts=, imports=)
        self.classes = {}     # simple class name -> ClassInfo
        self.funcs = {}       # key -> FuncInfo
        self._load()

    def _load(self):
        base = os.path.join(self.root, 'bespokeasm')
        for dp, dn, fn in os.walk(base):
            dn.sort()
            for f in sorted(fn):
                if not f.endswith('.py'):
                    continue
                path = os.path.join(dp, f)
                rel = os.path.relpath(path, self.root)[:-3].replace(os.sep, '.')
                if rel.endswith('.__init__'):
                    rel = rel[:-len('.__init__')]
                if '.configgen' in rel:
                    continue
                with open(path) as fh:
                    src = fh.read()
                tree = ast.parse(src, filename=path)
                self._load_module(rel, path, tree)
        # resolve subclasses
        self.subclasses = {c: set([c]) for c in self.classes}
        changed = True
        while changed:
            changed = False
            for c, ci in self.classes.items():
                for b in ci.base_names:
                    if b in self.subclasses:
                        new = self.subclasses[c] - self.subclasses[b]
                        if new:
                            self.subclasses[b] |= new
                            changed = True
        self.class_ids = {c: i + 1 for i, c in enumerate(sorted(self.classes))}

    def _load_module(self, modname, path, tree):
        m = dict(ast=tree, path=path, consts={}, imports={}, funcs={})
        self.modules[modname] = m
        for node in tree.body:
            if isinstance(node, ast.FunctionDef):
                key = f'{modname}:{node.name}'
                fi = FuncInfo(key, node, modname)
                self.funcs[key] = fi
                m['funcs'][node.name] = fi
            elif isinstance(node, ast.ClassDef):
                self._load_class(modname, node, prefix='')
            elif isinstance(node, ast.Assign) and len(node.targets) == 1 and isinstance(node.targets[0], ast.Name):
                m['consts'][node.targets[0].id] = node.value
            elif isinstance(node, ast.ImportFrom):
                for al in node.names:
                    mod = node.module or ''
                    if node.level:
                        is_pkg = path.endswith('__init__.py')
                        pkg = modname.split('.') if is_pkg else modname.split('.')[:-1]
                        basep = pkg[:len(pkg) - (node.level - 1)]
                        mod = '.'.join(basep + ([node.module] if node.module else []))
                    m['imports'][al.asname or al.name] = (mod, al.name)
            elif isinstance(node, ast.Import):
                for al in node.names:
                    m['imports'][al.asname or al.name] = (al.name, None)

    def _load_class(self, modname, node, prefix):
        ci = ClassInfo(node.name, modname, node)
        qual = prefix + node.name
        for b in node.bases:
            if isinstance(b, ast.Name):
                ci.base_names.append(b.id)
            elif isinstance(b, ast.Attribute):
                ci.base_names.append(b.attr)
            elif isinstance(b, ast.Subscript) and isinstance(b.value, ast.Name):
                ci.base_names.append(b.value.id)       # dict[str, X] -> dict
        if 'Enum' in ci.base_names:
            ci.is_enum = True
        self.classes[node.name] = ci
        for s in node.body:
            if isinstance(s, ast.FunctionDef):
                decos = []
                for d in s.decorator_list:
                    if isinstance(d, ast.Name):
                        decos.append(d.id)
                    elif isinstance(d, ast.Attribute):
                        decos.append(d.attr if d.attr in ('setter',) else d.attr)
                if 'property' in decos or 'cached_property' in decos:
                    ci.getters[s.name] = s
                    key = f'{modname}:{qual}.{s.name}'
                    self.funcs[key] = FuncInfo(key, s, modname, ci, 'getter')
                elif 'setter' in decos:
                    ci.setters[s.name] = s
                    key = f'{modname}:{qual}.{s.name}.setter'
                    self.funcs[key] = FuncInfo(key, s, modname, ci, 'setter')
                else:
                    ci.methods[s.name] = s
                    kind = 'method'
                    if 'classmethod' in decos:
                        kind = 'classmethod'
                        ci.classmethods.add(s.name)
                    if 'staticmethod' in decos:
                        kind = 'staticmethod'
                        ci.staticmethods.add(s.name)
                    key = f'{modname}:{qual}.{s.name}'
                    self.funcs[key] = FuncInfo(key, s, modname, ci, kind)
            elif isinstance(s, ast.Assign) and len(s.targets) == 1 and isinstance(s.targets[0], ast.Name):
                nm = s.targets[0].id
                ci.consts[nm] = s.value
                if ci.is_enum and isinstance(s.value, ast.Constant) and isinstance(s.value.value, int):
                    ci.enum_members[nm] = s.value.value
            elif isinstance(s, ast.AnnAssign) and isinstance(s.target, ast.Name) and s.value is not None:
                ci.consts[s.target.id] = s.value
            elif isinstance(s, ast.ClassDef):
                self._load_class(modname, s, prefix=qual + '.')

    # ---- lookups ------------------------------------------------------------
    def mro(self, cname):
        """Linearised bases (single inheritance in this repository)."""
        out = []
        seen = set()
        stack = [cname]
        while stack:
            c = stack.pop(0)
            if c in seen or c not in self.classes:
                continue
            seen.add(c)
            out.append(c)
            stack = self.classes[c].base_names + stack
        return out

    def is_subclass(self, c, base):
        return c in self.subclasses.get(base, ())

    def find_method(self, cname, mname, after=None):
        """(ClassInfo, FuncInfo) of the first class in the MRO of cname defining mname.
        With after=X, start the search strictly after X in the MRO (super())."""
        mro = self.mro(cname)
        if after is not None:
            mro = mro[mro.index(after) + 1:]
        for c in mro:
            ci = self.classes[c]
            if mname in ci.methods:
                return ci, self.func_of(ci, mname)
        return None, None

    def find_getter(self, cname, pname):
        for c in self.mro(cname):
            ci = self.classes[c]
            if pname in ci.getters:
                return ci, self.funcs[self._ckey(ci, pname)]
        return None, None

    def find_setter(self, cname, pname):
        for c in self.mro(cname):
            ci = self.classes[c]
            if pname in ci.setters:
                return ci, self.funcs[self._ckey(ci, pname) + '.setter']
        return None, None

    def _ckey(self, ci, name):
        for k, f in self.funcs.items():
            if f.cls is ci and f.node.name == name and not k.endswith('.setter'):
                return k
        raise KeyError((ci.name, name))

    def func_of(self, ci, mname):
        return self.funcs[self._ckey(ci, mname)]

    def overrides(self, cname, mname):
        """Classes (strict subclasses of cname) that define mname themselves."""
        return sorted(c for c in self.subclasses.get(cname, ()) if c != cname
                      and (mname in self.classes[c].methods or mname in self.classes[c].getters))

    def class_const(self, cname, name):
        for c in self.mro(cname):
            if name in self.classes[c].consts:
                return self.classes[c], self.classes[c].consts[name]
        return None, None
