"""Statement execution: outcome lists (kind, state, payload) with kinds
normal | return | raise | break | continue."""
import ast

import z3

from . import vtypes as T
from .vtypes import INT, BOOL, STR, NONE, FLOAT, OPAQUE
from .engine import SV, NONE_SV, VCError, Cx, State
from .calls import eval_clause, cx_with_vars, apply_modifies, havoc_content

I = z3.IntVal


def exec_block(ex, st, stmts, cx):
    if not stmts:
        return [('normal', st, None)]
    blk = ex.block_map.get(id(stmts[0])) if cx.root is cx and not cx.spec else None
    if blk is not None and blk[0] != ex.verifying_block:
        name, spec, bstmts = blk
        outs = apply_block(ex, st, name, spec, bstmts, cx)
        rest = stmts[len(bstmts):]
        if not rest:
            return outs
        res = []
        for o in outs:
            if o[0] == 'normal':
                res += exec_block(ex, o[1], rest, cx)
            else:
                res.append(o)
        return res
    outs = exec_stmt(ex, st, stmts[0], cx)
    if len(stmts) == 1:
        return outs
    res = []
    for o in outs:
        if o[0] == 'normal':
            res += exec_block(ex, o[1], stmts[1:], cx)
        else:
            res.append(o)
    return res


def exec_stmt(ex, st, s, cx):
    m = globals().get('st_' + type(s).__name__)
    if m is None:
        raise VCError(f'statement form {type(s).__name__} outside subset: {ast.unparse(s)[:80]}')
    return m(ex, st, s, cx)


def st_Pass(ex, st, s, cx):
    return [('normal', st, None)]


def st_Break(ex, st, s, cx):
    return [('break', st, None)]


def st_Continue(ex, st, s, cx):
    return [('continue', st, None)]


def st_Expr(ex, st, s, cx):
    if isinstance(s.value, ast.Constant):
        return [('normal', st, None)]
    return ex.ev(st, s.value, cx, lambda s2, v: [('normal', s2, None)])


def st_Return(ex, st, s, cx):
    if s.value is None:
        return [('return', st, NONE_SV)]
    if is_empty_container(s.value):
        from .calls import return_type
        rt = return_type(ex, cx.fi, cx.contract if cx.root is cx else ex.reg.primary(cx.fi.key))
        if rt is not None and (rt.kind in ('list', 'dict', 'set') or (rt.kind == 'opt' and rt.args[0].kind in ('list', 'dict', 'set'))):
            s2, r = new_empty(ex, st, rt)
            return [('return', s2, r)]
    return ex.ev(st, s.value, cx, lambda s2, v: [('return', s2, v)])


def st_Raise(ex, st, s, cx):
    if s.exc is None:
        kind = st.vars.get('$exc')
        if kind is None:
            raise VCError('bare raise outside handler')
        return ex.do_raise(st, cx, kind, s, why='re-raise')
    e = s.exc
    nm = None
    if isinstance(e, ast.Call) and isinstance(e.func, ast.Name):
        nm = e.func.id
    elif isinstance(e, ast.Name):
        nm = e.id
    if nm is None:
        raise VCError(f'raise form outside subset: {ast.unparse(s)}')
    return ex.do_raise(st, cx, nm, s, why=ast.unparse(s)[:60])


def st_Assert(ex, st, s, cx):
    def f(s2, v):
        return ex.guard_raise(s2, cx, z3.Not(ex.truth(s2, v)), 'AssertionError', s,
                              lambda s3: [('normal', s3, None)], why='assert')
    return ex.ev(st, s.test, cx, f)


def declared_local(ex, cx, name):
    back = {v: k for k, v in (getattr(ex, 'rename', None) or {}).items()}
    if name in back and cx.fi is ex.cur_fi:
        name = back[name]          # the contract still knows the local by its old name
    lt = cx.local_types.get(name)
    if lt is None and cx.contract is not None and cx.root is cx:
        lt = cx.contract.locals.get(name)
    if lt is not None:
        return ex.tenv.parse(lt)
    return None


def assign_to(ex, st, target, val, cx, k):
    """k(state) after storing val into target."""
    if isinstance(target, ast.Name):
        dt = declared_local(ex, cx, target.id)
        if dt is not None:
            val = ex.coerce_chk(st, cx, target, val, dt, f'local {target.id}')
        return k(st.setvar(target.id, val))
    if isinstance(target, ast.Attribute):
        def f(s2, obj):
            t = obj.ty
            if t.kind == 'opt' and t.args[0].kind == 'ref':
                inner = SV(t.args[0], obj.z)
                return ex.guard_raise(s2, cx, obj.z == 0, 'AttributeError', target,
                                      lambda s3: store_attr(ex, s3, inner, target.attr, val, cx, target, k),
                                      why='attribute store on None')
            return store_attr(ex, s2, obj, target.attr, val, cx, target, k)
        return ex.ev(st, target.value, cx, f)
    if isinstance(target, ast.Subscript):
        def f(s2, vs):
            base, idx = vs
            return store_index(ex, s2, base, idx, val, cx, target, k)
        return ex.ev_list(st, [target.value, target.slice], cx, f)
    if isinstance(target, (ast.Tuple, ast.List)) and val.ty.kind == 'list' \
            and not any(isinstance(t_, ast.Starred) for t_ in target.elts):
        # a, b = some_list: a list of any other length is a ValueError
        n_ = len(target.elts)

        def unpack(s2):
            def go_l(s3, i):
                if i == n_:
                    return k(s3)
                comp = SV(val.ty.args[0], ex.list_at(s3, val, z3.IntVal(i)))
                return assign_to(ex, s3, target.elts[i], comp, cx, lambda s4: go_l(s4, i + 1))
            return go_l(s2, 0)
        return ex.guard_raise(st, cx, ex.list_len(st, val) != n_, 'ValueError', target, unpack,
                              why=f'unpacking a list into {n_} names')
    if isinstance(target, (ast.Tuple, ast.List)):
        if val.ty.kind != 'tuple' or len(val.ty.args) != len(target.elts):
            raise VCError(f'tuple unpacking of {val.ty!r} outside subset')
        dt = T.sort_of(val.ty)

        def go(s2, i):
            if i == len(target.elts):
                return k(s2)
            comp = SV(val.ty.args[i], dt.accessor(0, i)(val.z))
            return assign_to(ex, s2, target.elts[i], comp, cx, lambda s3: go(s3, i + 1))
        return go(st, 0)
    raise VCError(f'assignment target outside subset: {ast.unparse(target)}')


def store_attr(ex, st, obj, attr, val, cx, node, k):
    if obj.ty.kind != 'ref':
        raise VCError(f'attribute store on {obj.ty!r} outside subset')
    cname = obj.ty.args[0]
    ci, fi = ex.repo.find_setter(cname, attr)
    if fi is not None:
        return ex.call_function(st, fi, [obj, val], {}, cx, node, lambda s, _: k(s))
    gi, gfi = ex.repo.find_getter(cname, attr)
    if gfi is not None:
        raise VCError(f'assignment to read-only property {cname}.{attr}')
    return k(ex.write_field(st, obj, attr, val))


def store_index(ex, st, base, idx, val, cx, node, k):
    d_ = ex.as_dict_subclass(st, base)
    if d_ is not None:
        base = d_
    t = base.ty
    if t.kind == 'opt' and T.is_reflike(t.args[0]):
        base = SV(t.args[0], base.z)
        t = base.ty
    if t.kind == 'list':
        n = ex.list_len(st, base)
        arr = ex.list_arr(st, base)
        i = ex.coerce(idx, INT).z
        isimp = z3.simplify(i)
        pos = z3.If(i < 0, i + n, i)
        if z3.is_int_value(isimp):
            pos = i if isimp.as_long() >= 0 else i + n
        elif ex.proves(st, i >= 0):
            pos = i
        x = ex.coerce(val, t.args[0], 'list item store')

        def cont(s):
            def cont2(s2):
                return k(ex.set_list(s2, base, n, ex.store(arr, pos, x.z)))
            if t == T.BYTEARRAY:
                return ex.guard_raise(s, cx, z3.Or(x.z < 0, x.z > 255), 'ValueError', node, cont2,
                                      why='byte must be in range(0, 256)')
            return cont2(s)
        return ex.guard_raise(st, cx, z3.Or(pos < 0, pos >= n), 'IndexError', node, cont, why=ast.unparse(node))
    if t.kind == 'dict':
        kt, vt = t.args
        key = ex.coerce(idx, kt)
        x = ex.coerce(val, vt, 'dict item store')
        dk, ds, vk, vs = ex.dkeys(t)
        dom = ex.dict_dom(st, base)
        vals = ex.dict_val(st, base)
        s2 = st.setheap(dk, z3.Store(ex.heap_get(st, dk, ds), base.z, z3.Store(dom, key.z, z3.BoolVal(True))))
        s2 = s2.setheap(vk, z3.Store(ex.heap_get(s2, vk, vs), base.z, z3.Store(vals, key.z, x.z)))
        # insertion order, when tracked
        okey = 'order:' + T.sort_name(T.sort_of(kt))
        if okey in ex.heap0 or okey in s2.heap:
            osrt = z3.ArraySort(z3.IntSort(), z3.SeqSort(T.sort_of(kt)))
            oarr = ex.heap_get(s2, okey, osrt)
            oldo = z3.Select(oarr, base.z)
            s2 = s2.setheap(okey, z3.Store(oarr, base.z,
                                           z3.If(z3.Select(dom, key.z), oldo, z3.Concat(oldo, z3.Unit(key.z)))))
        return k(s2)
    raise VCError(f'subscript store on {t!r} outside subset')


def st_Assign(ex, st, s, cx):
    def f(s2, v):
        def go(s3, i):
            if i == len(s.targets):
                return [('normal', s3, None)]
            return assign_to(ex, s3, s.targets[i], v, cx, lambda s4: go(s4, i + 1))
        return go(s2, 0)
    # empty container literals take their type from the declared local / field
    v = s.value
    if is_empty_container(v) and len(s.targets) == 1:
        ty = target_decl_type(ex, st, s.targets[0], cx)
        if ty is None and isinstance(v, ast.Call) and v.func.id == 'bytearray':
            ty = T.BYTEARRAY
        if ty is not None:
            base_ = ty.args[0] if ty.kind == 'opt' else ty
            if base_.kind == 'ref':
                # the contract types this local as an object (the source annotation says list): the empty list it is
                # initialised with is some non-None object that is never inspected before the local is reassigned
                s2, r = ex.alloc(st, base_, 'placeholder')
                note = f'local `{ast.unparse(s.targets[0])}` is initialised with an empty container but typed {ty!r} by the contract: placeholder object'
                if note not in ex.notes:
                    ex.notes.append(note)
                return f(s2, SV(ty, r.z))
            s2, r = new_empty(ex, st, ty)
            return f(s2, r)
    if isinstance(v, ast.ListComp) and len(s.targets) == 1 and len(v.generators) == 1 and isinstance(s.targets[0], ast.Name):
        # a comprehension for which the contract gives a loop invariant (ordinal compN, N-th comprehension of the function
        # in source order) is executed as the loop it abbreviates:   t = [];  for x in xs:  [if c:]  t.append(e)
        comps = sorted((n for n in ast.walk(cx.fi.node) if isinstance(n, ast.ListComp)), key=lambda n: (n.lineno, n.col_offset))
        o_ = 'comp%d' % [id(n) for n in comps].index(id(v)) if any(n is v for n in comps) else None
        c_ = cx.contract if cx.contract is not None else ex.reg.primary(cx.fi.key)
        ty = target_decl_type(ex, st, s.targets[0], cx)
        if o_ is not None and c_ is not None and o_ in (c_.loops or {}) and ty is not None and cx.root is cx:
            if ty.kind == 'opt':
                ty = ty.args[0]
            g_ = v.generators[0]
            tn = s.targets[0].id
            app = ast.Expr(value=ast.Call(func=ast.Attribute(value=ast.Name(id=tn, ctx=ast.Load()), attr='append', ctx=ast.Load()),
                                          args=[v.elt], keywords=[]))
            body = [app]
            for cond in reversed(g_.ifs):
                body = [ast.If(test=cond, body=body, orelse=[])]
            loop = ast.For(target=g_.target, iter=g_.iter, body=body, orelse=[])
            for n_ in ast.walk(loop):
                ast.copy_location(n_, v)
            ast.fix_missing_locations(loop)
            loop_spec(ex, cx, loop)
            ex._loop_ords[id(cx.fi.node)][id(loop)] = o_
            s2, r = new_empty(ex, st, ty)
            outs = []
            for kind_, s3, p_ in f(s2, r):
                if kind_ == 'normal':
                    outs += exec_block(ex, s3, [loop], cx)
                else:
                    outs.append((kind_, s3, p_))
            return outs
    if isinstance(v, ast.ListComp) and len(s.targets) == 1 and len(v.generators) == 1 and not v.generators[0].ifs:
        ty = target_decl_type(ex, st, s.targets[0], cx)
        if ty is not None and ty.kind == 'opt':
            ty = ty.args[0]
        if ty is not None and ty.kind == 'list':
            return ex.bi.listcomp(st, v, cx, f, ety=ty.args[0])
    if isinstance(v, ast.ListComp) and len(s.targets) == 1 and (len(v.generators) > 1 or v.generators[0].ifs):
        # a nested / filtered comprehension is abstracted: some fresh list of the declared type, of any length and content
        ty = target_decl_type(ex, st, s.targets[0], cx)
        if ty is not None:
            if ty.kind == 'opt':
                ty = ty.args[0]
            n = ex.fresh_z(z3.IntSort(), 'complen')
            arr = ex.fresh_z(z3.ArraySort(z3.IntSort(), T.sort_of(ty.args[0])), 'comparr')
            s2, r = ex.new_list(st.assume(n >= 0), ty, n, arr, 'comp')
            note = f'comprehension abstracted to an arbitrary fresh list (exceptions of its element expression ignored): {ast.unparse(v)[:70]}'
            if note not in ex.notes:
                ex.notes.append(note)
            return f(s2, r)
    return ex.ev(st, s.value, cx, f)


def is_empty_container(v):
    if isinstance(v, (ast.List, ast.Dict)) and not (v.elts if isinstance(v, ast.List) else v.keys):
        return True
    if isinstance(v, ast.Call) and isinstance(v.func, ast.Name) and v.func.id in ('list', 'dict', 'set') \
            and not v.args and not v.keywords:
        return True
    return False


def target_decl_type(ex, st, target, cx):
    if isinstance(target, ast.Name):
        return declared_local(ex, cx, target.id)
    if isinstance(target, ast.Attribute) and isinstance(target.value, ast.Name) and target.value.id in st.vars:
        obj = st.vars[target.value.id]
        if obj.ty.kind == 'ref':
            try:
                return ex.field_type(obj.ty.args[0], target.attr)
            except VCError:
                return None
    return None


def new_empty(ex, st, ty):
    if ty.kind == 'opt':
        ty = ty.args[0]
    s2, r = ex.alloc(st, ty, 'new')
    if ty.kind == 'list':
        s2 = ex.set_list(s2, r, I(0), ex.empty_arr(ty.args[0]))
    elif ty.kind == 'dict':
        dk, ds, vk, vs = ex.dkeys(ty)
        s2 = s2.setheap(dk, z3.Store(ex.heap_get(s2, dk, ds), r.z, z3.K(T.sort_of(ty.args[0]), z3.BoolVal(False))))
        okey = 'order:' + T.sort_name(T.sort_of(ty.args[0]))
        if okey in ex.heap0 or okey in s2.heap:
            osrt = z3.ArraySort(z3.IntSort(), z3.SeqSort(T.sort_of(ty.args[0])))
            s2 = s2.setheap(okey, z3.Store(ex.heap_get(s2, okey, osrt), r.z, z3.Empty(z3.SeqSort(T.sort_of(ty.args[0])))))
    elif ty.kind == 'set':
        k_, srt = ex.skey(ty.args[0])
        s2 = s2.setheap(k_, z3.Store(ex.heap_get(s2, k_, srt), r.z, z3.K(T.sort_of(ty.args[0]), z3.BoolVal(False))))
    else:
        raise VCError(f'empty literal for {ty!r}')
    return s2, r


def st_AnnAssign(ex, st, s, cx):
    if s.value is None:
        return [('normal', st, None)]
    ty = ex.ann_type(s.annotation)
    if isinstance(s.target, ast.Name) and ty is not None and declared_local(ex, cx, s.target.id) is None:
        if T.is_reflike(ty):
            ty = T.opt(ty)      # a Python annotation `x: C` does not exclude None
        cx.local_types = dict(cx.local_types)
        cx.local_types[s.target.id] = ty
    fake = ast.Assign(targets=[s.target], value=s.value)
    ast.copy_location(fake, s)
    return st_Assign(ex, st, fake, cx)


def st_AugAssign(ex, st, s, cx):
    # target op= value  ==  target = target op value   (target sub-expressions are pure here)
    load = to_load(s.target)

    def f(s2, vs):
        cur, v = vs
        return ex.binop(s2, s.op, cur, v, cx, s,
                        lambda s3, r: assign_to(ex, s3, s.target, r, cx, lambda s4: [('normal', s4, None)]))
    return ex.ev_list(st, [load, s.value], cx, f)


def to_load(t):
    import copy
    t2 = copy.deepcopy(t)
    for n in ast.walk(t2):
        if hasattr(n, 'ctx'):
            n.ctx = ast.Load()
    return t2


def st_If(ex, st, s, cx):
    def f(s2, c):
        tv = ex.truth(s2, c)
        outs = []
        if ex.feasible(s2, tv):
            outs += exec_block(ex, ex.narrow(s2, s.test, True).assume(tv), s.body, cx)
        ntv = z3.Not(tv)
        if ex.feasible(s2, ntv):
            outs += exec_block(ex, ex.narrow(s2, s.test, False).assume(ntv), s.orelse, cx)
        return outs
    return ex.ev(st, s.test, cx, f)


def handler_kinds(h):
    if h.type is None:
        return ('BaseException',)
    if isinstance(h.type, ast.Tuple):
        return tuple(x.id for x in h.type.elts)
    if isinstance(h.type, ast.Name):
        return (h.type.id,)
    if isinstance(h.type, ast.Attribute):
        return (h.type.attr,)
    raise VCError('handler type outside subset')


def st_Try(ex, st, s, cx):
    from .engine import exc_matches
    if s.finalbody:
        raise VCError('try/finally outside subset')
    kinds = tuple(k_ for h in s.handlers for k_ in handler_kinds(h))
    inner = st.copy(handlers=st.handlers + (kinds,))
    outs = exec_block(ex, inner, s.body, cx)
    res = []
    for kind, s2, val in outs:
        s2 = s2.copy(handlers=st.handlers)
        if kind == 'raise':
            handled = False
            for h in s.handlers:
                if any(exc_matches(val, hk) for hk in handler_kinds(h)):
                    s3 = s2
                    if h.name:
                        s3 = s3.setvar(h.name, SV(OPAQUE, I(0)))
                    s3 = s3.setvar('$exc', val) if False else s3
                    res += exec_block(ex, s3, h.body, cx)
                    handled = True
                    break
            if not handled:
                # propagates: must be permitted further out
                res += ex.do_raise(s2, cx, val, s, why='propagated')
        elif kind == 'normal' and s.orelse:
            res += exec_block(ex, s2, s.orelse, cx)
        else:
            res.append((kind, s2, val))
    return res


def st_With(ex, st, s, cx):
    raise VCError('with statement outside subset (file I/O is abstracted by block contracts)')


# ------------------------------------------------------------------------------------------ loops
def loop_ordinals(fn_node):
    """ordinal strings for every loop of a function: '0', '1', '0.0' (nesting)"""
    out = {}

    def visit(stmts, prefix):
        n = 0
        for s in stmts:
            for sub in ast.walk(s) if False else [s]:
                pass
            n = visit_stmt(s, prefix, n)
        return n

    def visit_stmt(s, prefix, n):
        if isinstance(s, (ast.For, ast.While)):
            o = f'{prefix}{n}'
            out[id(s)] = o
            inner = 0
            for b in s.body:
                inner = visit_stmt(b, o + '.', inner)
            return n + 1
        for field in ('body', 'orelse', 'handlers', 'finalbody'):
            for b in getattr(s, field, []) or []:
                if isinstance(b, ast.ExceptHandler):
                    for bb in b.body:
                        n = visit_stmt(bb, prefix, n)
                elif isinstance(b, ast.stmt):
                    n = visit_stmt(b, prefix, n)
        return n
    n = 0
    for s in fn_node.body:
        n = visit_stmt(s, '', n)
    return out


def loop_header(n):
    if isinstance(n, ast.For):
        return f'for {ast.unparse(n.target)} in {ast.unparse(n.iter)}'
    return f'while {ast.unparse(n.test)}'


def resolve_loop_ref(fn_node, ref):
    """'@<header prefix>#<k>[/<j>...]' -> ordinal string of the k-th loop (source order, any nesting depth) whose header
    text starts with the prefix; '/j' descends to the j-th loop directly inside.  Plain ordinals are returned unchanged."""
    if not ref.startswith('@'):
        return ref
    fallback = None
    if '|' in ref:
        # '@<header>#k|<ordinal>': if no loop has that header any more (the header itself was edited), the loop is
        # taken by its position, as long as a loop with that ordinal exists
        ref, fallback = ref.split('|', 1)
    try:
        return _resolve_loop_ref(fn_node, ref)
    except VCError:
        if fallback is not None and fallback.split('/')[0].replace('.', '').isdigit():
            o_ = fallback.replace('/', '.')
            if o_ in set(loop_ordinals(fn_node).values()):
                return o_
        raise


def _resolve_loop_ref(fn_node, ref):
    ords = loop_ordinals(fn_node)
    head, *down = ref[1:].split('/')
    prefix, _, k = head.rpartition('#')
    if not prefix:
        prefix, k = head, '0'
    loops = [n for n in ast.walk(fn_node) if isinstance(n, (ast.For, ast.While)) and id(n) in ords]
    loops.sort(key=lambda n: (n.lineno, n.col_offset))
    hits = [n for n in loops if loop_header(n).startswith(prefix)]
    if int(k) >= len(hits):
        raise VCError(f'anchor-missing: no loop #{k} starting with {prefix!r}')
    o = ords[id(hits[int(k)])]
    for j in down:
        o = f'{o}.{j}'
    return o


def resolve_loop_keys(fn_node, loops):
    """the loops= table of a contract with symbolic keys resolved to ordinals (unresolvable keys are left out: their
    loops will then be reported as lacking an invariant, i.e. undecided)"""
    out = {}
    for key, spec in (loops or {}).items():
        try:
            out[resolve_loop_ref(fn_node, key)] = spec
        except VCError:
            continue
    return out


def contract_loops(fi, c):
    """loops= of a contract keyed by ordinals (symbolic keys resolved against the current source)"""
    if c is None or not c.loops:
        return {}
    if not any(k_.startswith('@') for k_ in c.loops):
        return c.loops
    return resolve_loop_keys(fi.node, c.loops)


def assigned_names(stmts):
    names = set()
    for s in stmts:
        for n in ast.walk(s):
            if isinstance(n, ast.Name) and isinstance(n.ctx, ast.Store):
                names.add(n.id)
            elif isinstance(n, ast.ExceptHandler) and n.name:
                names.add(n.name)
    return names


def loop_spec(ex, cx, s):
    fi = cx.fi
    key = id(fi.node)
    if not hasattr(ex, '_loop_ords'):
        ex._loop_ords = {}
    if key not in ex._loop_ords:
        ex._loop_ords[key] = loop_ordinals(fi.node)
    o = ex._loop_ords[key].get(id(s))
    c = cx.contract if cx.contract is not None else ex.reg.primary(fi.key)
    spec = None
    if c is not None:
        spec = contract_loops(fi, c).get(o)
    return o, spec


def st_While(ex, st, s, cx):
    return run_loop(ex, st, s, cx, kind='while')


def st_For(ex, st, s, cx):
    return run_loop(ex, st, s, cx, kind='for')


def run_loop(ex, st, s, cx, kind):
    if s.orelse:
        raise VCError('loop else clause outside subset')
    o, spec = loop_spec(ex, cx, s)
    if kind == 'for':
        return for_loop(ex, st, s, cx, o, spec)
    return loop_core(ex, st, s, cx, o, spec, guard_fn=lambda s2, k: ex.ev(s2, s.test, cx, lambda s3, v: k(s3, ex.truth(s3, v))),
                     bind_fn=None, idx_sv=None)


def loop_core(ex, st, s, cx, o, spec, guard_fn, bind_fn, idx_sv, extra_inv=None, unroll_ok=True):
    """Cut the loop by its invariant.
       guard_fn(state, k) -> k(state', guard z3)     evaluates the loop test (may raise)
       bind_fn(state) -> state                      binds the loop target for this iteration
       idx_sv: name of the iteration counter (a local `$i<o>`; contracts call it by spec['idx'])"""
    from .calls import eval_clause
    label = f'{cx.label}/loop[{o}]' if cx.root is cx else f'{cx.root.label}/in:{cx.fi.key.split(":")[1]}/loop[{o}]'
    if spec is None:
        raise VCError(f'loop[{o}] of {cx.fi.key} has no invariant in the sidecar contract')
    idx_name = spec.get('idx', '_i')
    cname = f'$i{o}'
    scx = cx.as_spec()
    scx.module, scx.cls = cx.module, cx.cls

    def inv_state(state):
        # expose the counter under its contract name (and those of the enclosing loops under theirs)
        if cname in state.vars:
            state = state.setvar(idx_name, state.vars[cname])
        po = o
        while '.' in po:
            po = po.rsplit('.', 1)[0]
            pc = cx.contract if cx.contract is not None else ex.reg.primary(cx.fi.key)
            pspec = contract_loops(cx.fi, pc).get(po) if pc is not None else None
            if pspec is not None and f'$i{po}' in state.vars and pspec.get('idx', '_i') != idx_name:
                state = state.setvar(pspec.get('idx', '_i'), state.vars[f'$i{po}'])
        if spec.get('seq') and f'$it{o}' in state.vars:
            # the sequence being iterated (for a set: the arbitrary enumeration of its members), by its contract name
            state = state.setvar(spec['seq'], state.vars[f'$it{o}'])
        return state

    invs = list(spec.get('inv', []))
    # 1. establish
    st0 = st.snap('entry').snap('entry:' + o)
    # an invariant clause that names a local which no longer exists is detached from the code: it is dropped (the loop
    # is then cut by a weaker invariant, which can only lose proofs) and the fact is reported
    kept = []
    for cl in invs:
        try:
            eval_clause(ex, inv_state(st0), cl, scx)
            kept.append(cl)
        except VCError as err_:
            if 'is not a local, parameter or module constant' in str(err_):
                ex.notes.append(f'{label}: invariant clause dropped, it refers to a name the code no longer has: {cl[:80]}')
            else:
                raise
    invs = kept
    for i, cl in enumerate(invs):
        g = eval_clause(ex, inv_state(st0), cl, scx)
        ex.oblige(st0, f'{label}.establish[{i}]', g, kind='loop-establish', info=dict(clause=cl))
    # 2. havoc what the body may modify
    mod_names = assigned_names(s.body) | ({cname} if cname in st0.vars else set())
    if isinstance(s, ast.For):
        mod_names |= assigned_names([ast.Expr(value=s.target)]) if False else set(
            n.id for n in ast.walk(s.target) if isinstance(n, ast.Name))
    sth = st0
    newvars = dict(sth.vars)
    for nme in sorted(mod_names):
        if nme in sth.vars:
            old = sth.vars[nme]
            dt = None
            back_ = {v_: k_ for k_, v_ in (getattr(ex, 'rename', None) or {}).items()}
            if back_.get(nme, nme) in spec.get('types', {}):
                dt = ex.tenv.parse(spec['types'][back_.get(nme, nme)])
            else:
                dt = declared_local_any(ex, cx, nme) or old.ty
            if dt.kind == 'none':
                raise VCError(f'local {nme} is None at loop[{o}] entry and modified inside: declare its type (locals=)')
            nv = ex.fresh(dt, nme)
            newvars[nme] = nv
        # names first assigned inside the loop are dead at the head (Python would raise if read first)
    sth = sth.copy(vars=newvars)
    for nme in sorted(mod_names):
        if nme in sth.vars:
            for fact in ex.type_facts(sth.vars[nme]):
                sth = sth.assume(fact)
    sth = apply_modifies(ex, sth, spec.get('modifies', []), scx, hint=f'L{o}')
    if spec.get('allocates', False):
        al = ex.heap_get(sth, 'alloc', z3.ArraySort(z3.IntSort(), z3.BoolSort()))
        al2 = ex.fresh_z(al.sort(), 'alloc')
        r = z3.Int('r!al')
        sth = sth.setheap('alloc', al2).assume(z3.ForAll([r], z3.Implies(z3.Select(al, r), z3.Select(al2, r))))
    if cname in sth.vars:
        sth = sth.assume(sth.vars[cname].z >= 0)
    if extra_inv is not None:
        sth = sth.assume(*extra_inv(sth))
    for cl in invs:
        sth = sth.assume(eval_clause(ex, inv_state(sth), cl, scx))
    written_before = dict(sth.heap)

    # 3. one arbitrary iteration / exit
    def after_guard(s2, g):
        outs = []
        if ex.feasible(s2, g):
            s_it = s2.assume(g)
            if bind_fn is not None:
                s_it = bind_fn(s_it)
            dec0 = None
            if spec.get('decreases'):
                dec0 = ex.pure(inv_state(s_it), ast.parse(spec['decreases'], mode='eval').body, scx).z
            body_outs = exec_block(ex, s_it, s.body, cx)
            for kind, s3, val in body_outs:
                if kind in ('normal', 'continue'):
                    if cname in s3.vars:
                        s3 = s3.setvar(cname, SV(INT, s3.vars[cname].z + 1))
                    check_loop_frame(ex, s3, written_before, spec, cx, label, sth)
                    for i, cl in enumerate(invs):
                        gz = eval_clause(ex, inv_state(s3), cl, scx)
                        ex.oblige(s3, f'{label}.preserve[{i}]', gz, kind='loop-preserve', info=dict(clause=cl))
                    if extra_inv is not None:
                        pass
                    if dec0 is not None:
                        dec1 = ex.pure(inv_state(s3), ast.parse(spec['decreases'], mode='eval').body, scx).z
                        ex.oblige(s3, f'{label}.decreases', z3.And(dec0 >= 0, dec1 < dec0), kind='loop-variant',
                                  info=dict(clause=spec['decreases']))
                elif kind == 'break':
                    outs.append(('normal', drop_loop_snaps(s3, st, o), None))
                else:
                    outs.append((kind, drop_loop_snaps(s3, st, o), val))
        ng = z3.Not(g)
        if ex.feasible(s2, ng):
            outs.append(('normal', drop_loop_snaps(s2.assume(ng), st, o), None))
        return outs
    return guard_fn(sth, after_guard)


def drop_loop_snaps(s, outer, o):
    snaps = dict(s.snaps)
    snaps.pop('entry:' + o, None)
    if 'entry' in outer.snaps:
        snaps['entry'] = outer.snaps['entry']
    else:
        snaps.pop('entry', None)
    return s.copy(snaps=snaps)


def declared_local_any(ex, cx, name):
    return declared_local(ex, cx, name)


def check_loop_frame(ex, s_end, heap_at_head, spec, cx, label, s_head):
    """Every heap component the body changed must be covered by the loop's modifies list:
       the havoc at the loop head must over-approximate what an iteration does."""
    declared = heap_keys_of_modifies(ex, s_head, spec.get('modifies', []), cx)
    for key, arr in s_end.heap.items():
        before = heap_at_head.get(key, ex.heap0.get(key))
        if before is None or arr is before or arr.eq(before):
            continue
        if key == 'alloc':
            if not spec.get('allocates', False):
                raise VCError(f'{label}: body allocates objects; add allocates=True to the loop contract')
            continue
        r = z3.Int('r!fr')
        if key not in declared:
            # not in the modifies list: the body may only have written this component on objects it allocated itself;
            # every object that existed at the loop head must be unchanged
            al_head = s_head.heap.get('alloc', ex.heap0.get('alloc'))
            if al_head is None:
                raise VCError(f'{label}: body writes heap component {key} not covered by the loop modifies list')
            ok = z3.ForAll([r], z3.Implies(z3.Select(al_head, r), z3.Select(arr, r) == z3.Select(before, r)))
            ex.oblige(s_end, f'{label}.frame[{key}]', ok, kind='loop-frame')
            continue
        refs = declared[key]
        if refs is None:
            continue
        al_head = s_head.heap.get('alloc', ex.heap0.get('alloc'))
        guard = [r != x for x in refs] + ([z3.Select(al_head, r)] if al_head is not None else [])
        ok = z3.ForAll([r], z3.Implies(z3.And(guard), z3.Select(arr, r) == z3.Select(before, r)))
        ex.oblige(s_end, f'{label}.frame[{key}]', ok, kind='loop-frame')


def heap_keys_of_modifies(ex, st, targets, cx):
    """heap key -> list of receiver refs (None = whole component)"""
    scx = cx.as_spec()
    scx.module, scx.cls = cx.module, cx.cls
    out = {}
    for t in targets:
        t = t.strip()
        if t.startswith('*.'):
            fname, _, cname = t[2:].partition(':')
            ft = ex.field_type(cname, fname)
            out[ex.fkey(fname, ft)] = None
            continue
        if t.startswith('all-lists:'):
            lty = ex.tenv.parse(t[len('all-lists:'):])
            out[ex.lkey_of(lty)] = None
            out[ex.lenkey_of(lty)] = None
            continue
        if t.startswith('heap:'):
            out[t[5:]] = None
            continue
        if t.startswith('all-dicts:'):
            dk, ds, vk, vs = ex.dkeys(ex.tenv.parse(t[len('all-dicts:'):]))
            out[dk] = None
            out[vk] = None
            continue
        content = t.endswith('[*]')
        base = t[:-3] if content else t
        from .calls import renamed
        tree = renamed(ex, scx, ast.parse(base, mode='eval').body)
        if content:
            obj = ex.pure(st, tree, scx)
            ty = obj.ty.args[0] if obj.ty.kind == 'opt' else obj.ty
            if ty.kind == 'list':
                keys = [ex.lkey_of(ty), ex.lenkey_of(ty)]
            elif ty.kind == 'dict':
                dk, ds, vk, vs = ex.dkeys(ty)
                keys = [dk, vk, 'order:' + T.sort_name(T.sort_of(ty.args[0]))]
            elif ty.kind == 'set':
                keys = [ex.skey(ty.args[0])[0]]
            else:
                raise VCError(f'modifies {t}')
            for key in keys:
                if out.get(key, []) is not None:
                    out.setdefault(key, []).append(obj.z)
        else:
            obj = ex.pure(st, tree.value, scx)
            oty = obj.ty.args[0] if obj.ty.kind == 'opt' else obj.ty
            ft = ex.field_type(oty.args[0], tree.attr)
            key = ex.fkey(tree.attr, ft)
            if out.get(key, []) is not None:
                out.setdefault(key, []).append(obj.z)
    return out


def small_const_iter(ex, st, s, cx):
    """literal list/tuple or constant range(<=8): candidates for unrolling when no invariant is given"""
    it = s.iter
    if isinstance(it, (ast.List, ast.Tuple)) and len(it.elts) <= 8:
        return list(it.elts)
    if isinstance(it, ast.Name) and it.id not in st.vars:
        # a module-level constant bound to a literal tuple / list of at most 8 entries
        mod = ex.repo.modules.get(cx.fi.module) if cx.fi is not None else None
        val = (mod or {}).get('consts', {}).get(it.id) if mod else None
        if isinstance(val, (ast.List, ast.Tuple)) and len(val.elts) <= 8:
            return list(val.elts)
    if isinstance(it, ast.Call) and isinstance(it.func, ast.Name) and it.func.id == 'range' \
            and all(isinstance(a, ast.Constant) for a in it.args):
        vals = list(range(*[a.value for a in it.args]))
        if len(vals) <= 8:
            return [ast.Constant(value=v) for v in vals]
    return None


def unroll(ex, st, s, cx, items):
    def go(s2, i):
        if i == len(items):
            return [('normal', s2, None)]

        def f(s3, v):
            def body(s4):
                res = []
                for kind, s5, val in exec_block(ex, s4, s.body, cx):
                    if kind in ('normal', 'continue'):
                        res += go(s5, i + 1)
                    elif kind == 'break':
                        res.append(('normal', s5, None))
                    else:
                        res.append((kind, s5, val))
                return res
            return assign_to(ex, s3, s.target, v, cx, body)
        return ex.ev(s2, items[i], cx, f)
    return go(st, 0)


def for_loop(ex, st, s, cx, o, spec):
    it = s.iter
    if spec is None:
        items = small_const_iter(ex, st, s, cx)
        if items is not None:
            return unroll(ex, st, s, cx, items)
    cname = f'$i{o}'
    tgt = s.target
    if isinstance(it, ast.Call) and isinstance(it.func, ast.Name) and it.func.id == 'range':
        def f(s2, vs):
            vs = [ex.coerce(v, INT) for v in vs]
            if len(vs) == 1:
                a, b, step = I(0), vs[0].z, 1
            elif len(vs) == 2:
                a, b, step = vs[0].z, vs[1].z, 1
            else:
                a, b = vs[0].z, vs[1].z
                stz = z3.simplify(vs[2].z)
                if not z3.is_int_value(stz) or stz.as_long() == 0:
                    raise VCError('range() with symbolic step outside subset')
                step = stz.as_long()
            if spec is None:
                az, bz = z3.simplify(a), z3.simplify(b)
                if z3.is_int_value(az) and z3.is_int_value(bz):
                    vals = list(range(az.as_long(), bz.as_long(), step))
                    if len(vals) <= 256:
                        return unroll(ex, s2, s, cx, [ast.Constant(value=v) for v in vals])
            s2 = s2.setvar(cname, SV(INT, I(0))).setvar(f'$a{o}', SV(INT, a)).setvar(f'$b{o}', SV(INT, b))

            def cur(s3):
                return a + s3.vars[cname].z * step

            def guard_fn(s3, k):
                x = cur(s3)
                return k(s3, x < b if step > 0 else x > b)

            def bind_fn(s3):
                if not isinstance(tgt, ast.Name):
                    raise VCError('range loop target must be a name')
                return s3.setvar(tgt.id, SV(INT, cur(s3)))

            def extra(s3):
                i = s3.vars[cname].z
                prev = a + (i - 1) * step
                return [z3.Or(i == 0, prev < b if step > 0 else prev > b)]
            return loop_core(ex, s2, s, cx, o, spec, guard_fn, bind_fn, cname, extra_inv=extra)
        return ex.ev_list(st, it.args, cx, f)
    enum = False
    src = it
    if isinstance(it, ast.Call) and isinstance(it.func, ast.Name) and it.func.id == 'enumerate' and len(it.args) == 1:
        enum = True
        src = it.args[0]
    if isinstance(it, ast.Call) and isinstance(it.func, ast.Attribute) and it.func.attr == 'items' and not it.args:
        return cfg_items_loop(ex, st, s, cx, o, spec, it.func.value)

    values_of_dict = False
    if isinstance(it, ast.Call) and isinstance(it.func, ast.Attribute) and it.func.attr == 'values' and not it.args:
        values_of_dict = True
        src = it.func.value

    def g(s2, coll):
        t = coll.ty
        if t.kind == 'opt' and T.is_reflike(t.args[0]):
            coll = SV(t.args[0], coll.z)
            t = coll.ty
        if values_of_dict:
            if t.kind != 'dict':
                raise VCError(f'.values() of {t!r} outside subset: {ast.unparse(it)}')
            # iteration over the values of a dict: over an enumeration `ord` of them, one entry per key (keyat / pos are
            # inverse to each other on the keys); the contract sees the list of values as `seq`
            kty, vty = t.args
            ks, vs_ = T.sort_of(kty), T.sort_of(vty)
            n_ = ex.fresh_z(z3.IntSort(), 'dictlen')
            ord_ = ex.fresh_z(z3.ArraySort(z3.IntSort(), vs_), 'valord')
            ex.counter += 1
            pos_ = z3.Function(f'keypos!{ex.counter}', ks, z3.IntSort())
            keyat_ = z3.Function(f'keyat!{ex.counter}', z3.IntSort(), ks)
            dom, val = ex.dict_dom(s2, coll), ex.dict_val(s2, coll)
            kq, jq = z3.Const('k!dv', ks), z3.Int('j!dv')
            s2 = s2.assume(n_ >= 0,
                           z3.ForAll([kq], z3.Implies(z3.Select(dom, kq),
                                                      z3.And(pos_(kq) >= 0, pos_(kq) < n_, keyat_(pos_(kq)) == kq,
                                                             z3.Select(ord_, pos_(kq)) == z3.Select(val, kq))),
                                     patterns=[z3.Select(dom, kq)]),
                           z3.ForAll([jq], z3.Implies(z3.And(jq >= 0, jq < n_),
                                                      z3.And(z3.Select(dom, keyat_(jq)), pos_(keyat_(jq)) == jq,
                                                             z3.Select(ord_, jq) == z3.Select(val, keyat_(jq)))),
                                     patterns=[z3.Select(ord_, jq)]))
            s2, lst_ = ex.new_list(s2, T.lst(vty), n_, ord_, 'valorder')
            coll = lst_
            t = coll.ty
        if t.kind == 'set':
            # iteration over a set: over an ARBITRARY enumeration `ord` of its elements (no order is assumed, so whatever
            # is proved holds for every hash seed); pos is the inverse of ord on the members
            ety = t.args[0]
            es = T.sort_of(ety)
            n_ = ex.fresh_z(z3.IntSort(), 'setlen')
            ord_ = ex.fresh_z(z3.ArraySort(z3.IntSort(), es), 'setord')
            pos_ = z3.Function(f'setpos!{ex.counter}', es, z3.IntSort())
            members = ex.set_content(s2, coll)
            xq = z3.Const('x!so', es)
            jq = z3.Int('j!so')
            s2 = s2.assume(n_ >= 0,
                           z3.ForAll([xq], z3.Select(members, xq) ==
                                     z3.And(pos_(xq) >= 0, pos_(xq) < n_, z3.Select(ord_, pos_(xq)) == xq),
                                     patterns=[z3.Select(members, xq)]),
                           z3.ForAll([jq], z3.Implies(z3.And(jq >= 0, jq < n_),
                                                      z3.And(z3.Select(members, z3.Select(ord_, jq)),
                                                             pos_(z3.Select(ord_, jq)) == jq)),
                                     patterns=[z3.Select(ord_, jq)]))
            s2, lst_ = ex.new_list(s2, T.lst(ety), n_, ord_, 'setorder')
            coll = lst_
            t = coll.ty
        if t.kind not in ('list', 'seq', 'cfg'):
            raise VCError(f'for over {t!r} outside subset: {ast.unparse(it)}')
        s2 = s2.setvar(cname, SV(INT, I(0))).setvar(f'$it{o}', coll)

        def guard_fn(s3, k):
            n3, _ = ex.seq_view(s3, coll)
            return k(s3, s3.vars[cname].z < n3)

        def bind_fn(s3):
            i = s3.vars[cname].z
            _, at3 = ex.seq_view(s3, coll)
            x = SV(t.args[0] if t.kind != 'cfg' else T.CFG, at3(i))
            for fact in ex.type_facts(x):
                s3 = s3.assume(fact)
            if t in (T.BYTEARRAY, T.BYTES):
                s3 = s3.assume(x.z >= 0, x.z <= 255)      # element of a bytes / bytearray object
            s3 = ex.assume_allocated(s3, x)
            if enum:
                if not (isinstance(tgt, ast.Tuple) and len(tgt.elts) == 2 and all(isinstance(e_, ast.Name) for e_ in tgt.elts)):
                    raise VCError('enumerate target outside subset')
                return s3.setvar(tgt.elts[0].id, SV(INT, i)).setvar(tgt.elts[1].id, x)
            if isinstance(tgt, ast.Name):
                return s3.setvar(tgt.id, x)
            raise VCError('for target outside subset')
        return loop_core(ex, s2, s, cx, o, spec, guard_fn, bind_fn, cname)
    return ex.ev(st, src, cx, g)


# ------------------------------------------------------------------------------------------ block contracts
def find_block(fn_node, where):
    """statements designated by a locator:  body[i:j] | loop[o] | loop[o].body | loop[o].body[i:j]"""
    import re
    from .source import strip_docstring
    if '@' in where and not where.startswith(('between:', 'from:')):
        # symbolic loop references: loop[@<header>#k] / span(@<header>#k:@<header>#k]
        where = re.sub(r'@[^\]:]+(?:#\d+)?(?:/\d+)*', lambda m_: resolve_loop_ref(fn_node, m_.group(0)), where)
    ms = re.fullmatch(r'span([\[(])([\d.]+):([\d.]+)\]', where)
    if ms:
        # consecutive statements of one statement list, from loop a (exclusive with '(') through loop b (inclusive)
        excl, a_, b_ = ms.group(1) == '(', ms.group(2), ms.group(3)
        ords = loop_ordinals(fn_node)
        na = nb = None
        for n in ast.walk(fn_node):
            if ords.get(id(n)) == a_:
                na = n
            if ords.get(id(n)) == b_:
                nb = n
        if na is None or nb is None:
            raise VCError(f'anchor-missing: loops for block {where!r}')
        for n in ast.walk(fn_node):
            for fld in ('body', 'orelse', 'finalbody'):
                lst = getattr(n, fld, None)
                if isinstance(lst, list) and na in lst and nb in lst:
                    i0, i1 = lst.index(na), lst.index(nb)
                    return lst[i0 + (1 if excl else 0):i1 + 1]
        raise VCError(f'anchor-missing: loops of {where!r} are not in one statement list')
    mb = re.fullmatch(r'between:(.+?)::(.+)', where, flags=re.S)
    if mb:
        # the statements of one list from the first that starts with <start> up to (not including) the first later one
        # that starts with <end>
        p0, p1 = mb.group(1), mb.group(2)
        seen_start = False
        for n in ast.walk(fn_node):
            for fld in ('body', 'orelse', 'finalbody'):
                lst = getattr(n, fld, None)
                if isinstance(lst, list):
                    for i_, st_ in enumerate(lst):
                        if isinstance(st_, ast.stmt) and ast.unparse(st_).startswith(p0):
                            seen_start = True
                            for j_ in range(i_ + 1, len(lst)):
                                if ast.unparse(lst[j_]).startswith(p1):
                                    return lst[i_:j_]
                            break       # (the same start text may open the block in another statement list)
        if seen_start:
            raise VCError(f'anchor-missing: no statement starting with {p1!r} after {p0!r}')
        raise VCError(f'anchor-missing: no statement starts with {p0!r}')
    mt = re.fullmatch(r'from:(.+):(\d+)', where, flags=re.S)
    if mt:
        # <count> consecutive statements starting at the first statement whose source text starts with <prefix>
        prefix, cnt = mt.group(1), int(mt.group(2))
        for n in ast.walk(fn_node):
            for fld in ('body', 'orelse', 'finalbody'):
                lst = getattr(n, fld, None)
                if isinstance(lst, list):
                    for i_, st_ in enumerate(lst):
                        if isinstance(st_, ast.stmt) and ast.unparse(st_).startswith(prefix):
                            if i_ + cnt > len(lst):
                                raise VCError(f'anchor-missing: fewer than {cnt} statements from {prefix!r}')
                            return lst[i_:i_ + cnt]
        raise VCError(f'anchor-missing: no statement starts with {prefix!r}')
    m = re.fullmatch(r'(?:loop\[([\d.]+)\])?(?:\.?(body))?(?:\[(\d*):(\d*)\])?', where)
    if not m:
        raise VCError(f'block locator {where!r}')
    o, body, a, b = m.groups()
    if o is None:
        stmts = strip_docstring(fn_node.body)
    else:
        ords = loop_ordinals(fn_node)
        node = None
        for n in ast.walk(fn_node):
            if ords.get(id(n)) == o:
                node = n
        if node is None:
            raise VCError(f'anchor-missing: loop[{o}] for block {where!r}')
        if body is None:
            # the loop statement itself: find its enclosing statement list
            for n in ast.walk(fn_node):
                for fld in ('body', 'orelse', 'finalbody'):
                    lst = getattr(n, fld, None)
                    if isinstance(lst, list) and node in lst:
                        return [node]
            raise VCError(f'loop[{o}] not found in a statement list')
        stmts = node.body
    a = int(a) if a else 0
    b = int(b) if b else len(stmts)
    return stmts[a:b]


def apply_block(ex, st, name, spec, bstmts, cx):
    """Use a block contract in place of the block: assert requires, havoc what it may modify, assume ensures."""
    scx = cx.as_spec()
    scx.module, scx.cls = cx.module, cx.cls
    label = f'{cx.label}/block[{name}]'
    if 'on_return' in spec:
        raise VCError(f'block[{name}] may return from the function: usable only under blocks_only (verified, never applied)')
    pre = st
    for i, r in enumerate(spec.get('requires', [])):
        g = eval_clause(ex, pre, r, scx)
        ex.oblige(pre, f'{label}.requires[{i}]', g, kind='block-pre', info=dict(clause=r))
        pre = pre.assume(g)
    outs = []
    conds = []
    for kind, cond in spec.get('raises', {}).items():
        cz = eval_clause(ex, pre, cond, scx)
        conds.append(cz)
        if ex.feasible(pre, cz):
            s_r = pre.assume(cz)
            if ex.permitted(s_r, kind):
                outs.append(('raise', s_r, kind))
            else:
                ex.oblige(s_r, f'{label}.no-{kind}', z3.BoolVal(False), kind='absence')
    for kind, cond in spec.get('may_raise', {}).items():
        cz = eval_clause(ex, pre, cond, scx) if isinstance(cond, str) else z3.BoolVal(True)
        if ex.feasible(pre, cz):
            # the state at an abrupt exit of the block is unconstrained on what the block may modify
            s_r = apply_modifies(ex, pre.assume(cz), spec.get('modifies', []), scx, hint='Bx_' + name.replace('.', '_'))
            if ex.permitted(s_r, kind):
                outs.append(('raise', s_r, kind))
            else:
                ex.oblige(s_r, f'{label}.no-{kind}', z3.BoolVal(False), kind='absence')
    normal = pre.assume(*[z3.Not(c_) for c_ in conds]) if conds else pre
    post = normal.copy(snaps=dict(normal.snaps, old=(normal.vars, normal.heap)))
    # locals assigned by the block
    newvars = dict(post.vars)
    ltypes = spec.get('locals', {})
    for nme in sorted(assigned_names(bstmts)):
        dt = None
        if nme in ltypes:
            dt = ex.tenv.parse(ltypes[nme])
        elif nme in post.vars and post.vars[nme].ty.kind != 'none':
            dt = declared_local(ex, cx, nme) or post.vars[nme].ty
        else:
            dt = declared_local(ex, cx, nme)
        if dt is None:
            continue       # dead after the block unless declared
        newvars[nme] = ex.fresh(dt, nme)
    post = post.copy(vars=newvars)
    for nme in assigned_names(bstmts):
        if nme in post.vars:
            for fact in ex.type_facts(post.vars[nme]):
                post = post.assume(fact)
    post = apply_modifies(ex, post, spec.get('modifies', []), scx, hint='B_' + name.replace('.', '_'))
    if spec.get('allocates'):
        al = ex.heap_get(post, 'alloc', z3.ArraySort(z3.IntSort(), z3.BoolSort()))
        al2 = ex.fresh_z(al.sort(), 'alloc')
        r = z3.Int('r!al')
        post = post.setheap('alloc', al2).assume(z3.ForAll([r], z3.Implies(z3.Select(al, r), z3.Select(al2, r))))
    for cl in spec.get('ensures', []):
        post = post.assume(eval_clause(ex, post, cl, scx))
    post = post.copy(snaps=st.snaps)
    return outs + [('normal', post, None)]


def cfg_items_loop(ex, st, s, cx, o, spec, src):
    """for key, value in <configuration dict>.items(): the entries in file order (keys pairwise distinct)"""
    cname = f'$i{o}'
    tgt = s.target
    if not (isinstance(tgt, ast.Tuple) and len(tgt.elts) == 2 and all(isinstance(e_, ast.Name) for e_ in tgt.elts)):
        raise VCError('items() loop target outside subset')

    def g(s2, coll):
        t = coll.ty
        if t.kind == 'opt' and t.args[0].kind == 'cfg':
            coll = SV(T.CFG, coll.z)
            t = coll.ty
        if t.kind != 'cfg':
            raise VCError(f'.items() of {t!r} outside subset')
        n_ = ex.uf('cfg_nitems', z3.IntSort(), z3.IntSort())(coll.z)
        key_at = ex.uf('cfg_key_at', z3.IntSort(), z3.IntSort(), z3.StringSort())
        val_at = ex.uf('cfg_val_at', z3.IntSort(), z3.IntSort(), z3.IntSort())
        has = ex.uf('cfg_has', z3.IntSort(), z3.StringSort(), z3.BoolSort())
        get = ex.uf('cfg_get', z3.IntSort(), z3.StringSort(), z3.IntSort())
        i_, j_ = z3.Int('i!it'), z3.Int('j!it')
        s2 = s2.assume(n_ >= 0,
                       z3.ForAll([i_], z3.Implies(z3.And(i_ >= 0, i_ < n_),
                                                  z3.And(has(coll.z, key_at(coll.z, i_)),
                                                         get(coll.z, key_at(coll.z, i_)) == val_at(coll.z, i_),
                                                         val_at(coll.z, i_) > 0)),
                                 patterns=[key_at(coll.z, i_)]),
                       z3.ForAll([i_, j_], z3.Implies(z3.And(i_ >= 0, i_ < j_, j_ < n_),
                                                      key_at(coll.z, i_) != key_at(coll.z, j_)),
                                 patterns=[z3.MultiPattern(key_at(coll.z, i_), key_at(coll.z, j_))]))
        s2 = s2.setvar(cname, SV(INT, I(0))).setvar(f'$it{o}', coll)

        def guard_fn(s3, k):
            return k(s3, s3.vars[cname].z < n_)

        def bind_fn(s3):
            i = s3.vars[cname].z
            return s3.setvar(tgt.elts[0].id, SV(STR, key_at(coll.z, i))).setvar(tgt.elts[1].id, SV(T.CFG, val_at(coll.z, i)))
        return loop_core(ex, s2, s, cx, o, spec, guard_fn, bind_fn, cname)
    return ex.ev(st, src, cx, g)
