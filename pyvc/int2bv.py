"""Sound translation of a bounded non-negative integer formula to bit-vectors.

Accepted: numerals, integer constants with a declared upper bound, + * (no subtraction), div / mod by positive
numerals, ite, comparisons, boolean connectives.  Every subterm carries an upper bound computed by interval arithmetic;
the translation fails (returns None) if a bound reaches 2**N, so no wrap-around can occur and the bit-vector formula
is equivalent to the integer one on the declared domain."""
import z3


class Fail(Exception):
    pass


def translate(e, bounds, N=192):
    """bounds: {const name: inclusive upper bound} (all constants are >= 0).  -> BV formula or raises Fail"""
    cache = {}

    def tr(t):
        i = t.get_id()
        if i in cache:
            return cache[i][0]
        r = tr_(t)
        cache[i] = (r, t)     # keep t alive: the ids of collected ASTs are reused
        return r

    def tr_(t):
        if z3.is_int_value(t):
            v = t.as_long()
            if v < 0:
                raise Fail('negative numeral')
            return z3.BitVecVal(v, N), v
        if z3.is_true(t) or z3.is_false(t):
            return t, None
        if z3.is_const(t) and t.sort() == z3.IntSort() and t.decl().kind() == z3.Z3_OP_UNINTERPRETED:
            nm = t.decl().name()
            if nm not in bounds:
                raise Fail(f'unbounded constant {nm}')
            return z3.BitVec(nm + '!bv', N), bounds[nm]
        if not z3.is_app(t):
            raise Fail(f'term {t}')
        k = t.decl().kind()
        ch = t.children()
        if k == z3.Z3_OP_ADD:
            parts = [tr(c) for c in ch]
            ub = sum(p[1] for p in parts)
            chk(ub)
            r = parts[0][0]
            for p in parts[1:]:
                r = r + p[0]
            return r, ub
        if k == z3.Z3_OP_MUL:
            parts = [tr(c) for c in ch]
            ub = 1
            for p in parts:
                ub *= p[1]
            chk(ub)
            r = parts[0][0]
            for p in parts[1:]:
                r = r * p[0]
            return r, ub
        if k in (z3.Z3_OP_IDIV, z3.Z3_OP_DIV, z3.Z3_OP_MOD):
            a, b = tr(ch[0]), ch[1]
            if not z3.is_int_value(b) or b.as_long() <= 0:
                raise Fail('division by a non-numeral')
            bv = z3.BitVecVal(b.as_long(), N)
            if k == z3.Z3_OP_MOD:
                return z3.URem(a[0], bv), min(a[1], b.as_long() - 1)
            return z3.UDiv(a[0], bv), a[1] // b.as_long()
        if k == z3.Z3_OP_ITE:
            c, a, b = tr(ch[0]), tr(ch[1]), tr(ch[2])
            if a[1] is None:
                return z3.If(c[0], a[0], b[0]), None
            return z3.If(c[0], a[0], b[0]), max(a[1], b[1])
        if k in (z3.Z3_OP_LE, z3.Z3_OP_LT, z3.Z3_OP_GE, z3.Z3_OP_GT):
            a, b = tr(ch[0]), tr(ch[1])
            f = {z3.Z3_OP_LE: z3.ULE, z3.Z3_OP_LT: z3.ULT, z3.Z3_OP_GE: z3.UGE, z3.Z3_OP_GT: z3.UGT}[k]
            return f(a[0], b[0]), None
        if k == z3.Z3_OP_EQ:
            a, b = tr(ch[0]), tr(ch[1])
            return a[0] == b[0], None
        if k == z3.Z3_OP_DISTINCT:
            a, b = tr(ch[0]), tr(ch[1])
            return a[0] != b[0], None
        if k == z3.Z3_OP_AND:
            return z3.And([tr(c)[0] for c in ch]), None
        if k == z3.Z3_OP_OR:
            return z3.Or([tr(c)[0] for c in ch]), None
        if k == z3.Z3_OP_NOT:
            return z3.Not(tr(ch[0])[0]), None
        if k == z3.Z3_OP_IMPLIES:
            return z3.Implies(tr(ch[0])[0], tr(ch[1])[0]), None
        raise Fail(f'operator {t.decl().name()}')

    def chk(ub):
        if ub >= 2 ** (N - 1):
            raise Fail('bound exceeds the bit-vector width')

    return tr(e)[0]


def expand_defs(e, defs, limit=64):
    """unfold applications of defined functions whose recursion argument(s) are numerals"""
    for _ in range(limit):
        changed = False
        for t in subterms(e):
            if z3.is_app(t) and t.num_args() > 0 and t.decl().name() in defs:
                decl, formals, body = defs[t.decl().name()]
                inst = z3.substitute(body, *[(f, t.arg(i)) for i, f in enumerate(formals)])
                e = z3.simplify(z3.substitute(e, (t, inst)))
                changed = True
                break
        if not changed:
            return e
    return e


def subterms(e):
    seen = {}
    stack = [e]
    while stack:
        t = stack.pop()
        if t.get_id() in seen:
            continue
        seen[t.get_id()] = t
        if z3.is_app(t):
            stack.extend(t.children())
    return list(seen.values())
