"""Verdict, KNOWN-FINDING / VIOLATION lines, evidence file."""
import json
import os
import sys

from . import run as R
from .registry import REG

VERIF = R.VERIF


def match_known(pid, e, known):
    for k in known:
        if k.get('property') == pid and k.get('status') == 'known' and k.get('obligation') == e['name']:
            return k
    return None


def report(res, verbose=False, partial=False):
    pid = res['pid']
    known = R.known_findings()
    level = 'other' if pid == 'C15' else 'proof'
    violations = []
    known_hits = []
    for e in sorted(res['refuted'], key=lambda x: x['name']):
        k = match_known(pid, e, known)
        if k is not None:
            known_hits.append((e, k))
        else:
            violations.append(e)
    # ---- output ------------------------------------------------------------------------------
    print(f'[{pid}] {res["n_ob"]} obligations from {len(res["funcs"])} functions under contract: '
          f'{len(res["proved"])} discharged, {len(res["refuted"])} refuted, {len(res["unknown"])} undecided; '
          f'solver {res["solver_time"]:.2f}s, wall {res["wall"]:.1f}s')
    if verbose:
        for e in sorted(res['by_name'].values(), key=lambda x: x['name']):
            print(f'   {e["status"]:8s} {e["name"]}  [{",".join(sorted(e["backends"]))}] x{e["instances"]}')
    for key, err in res['errors']:
        print(f'UNDECIDED: {key}: {err}')
    for o in res['crashes']:
        print(f'CRASH: {o["key"]}: {o["error"]}')
    for n in res['vac_bad']:
        print(f'VACUOUS: {n}: the precondition is unsatisfiable')
    for e in res['unknown']:
        print(f'UNDECIDED: obligation {e["name"]} ({e.get("clause")}): solver returned unknown [{e.get("case", "")}]')
    for e, k in known_hits:
        print(f'KNOWN-FINDING: property={pid} {k.get("what", e["name"])}')
    bounded_viol = []
    for b in res.get('bounded', []):
        print(f'[{pid}] bounded stand-in `{b["name"]}` ({b["bound"]}): {b["cases"]} cases, '
              f'{len(b["disagreements"])} disagreements (bounded: not counted as proved)')
        if b['rc'] not in (0, 1) or b['cases'] is None:
            print(f'CRASH: bounded stand-in {b["name"]}: rc={b["rc"]} {b["stderr"][-300:]}')
            res['crashes'].append(dict(key=b['name'], error=b['stderr']))
        elif b['disagreements']:
            bounded_viol.append(b)
            d0 = b['disagreements'][0]
            print(f'VIOLATION property={pid} replay={b["result_file"]}')
            print(f'   bounded stand-in {b["name"]}: input {d0.get("text")!r} expected {d0.get("expected")} observed {d0.get("observed")}')
    for e in violations:
        replay, suffix = make_replay(pid, e)
        print(f'VIOLATION property={pid} replay={replay}{suffix}')
        print(f'   obligation {e["name"]} ({e.get("clause")}) refuted')
    # ---- evidence ------------------------------------------------------------------------------
    discharged = len(res['proved'])
    n_ob = res['n_ob']
    samples = []
    for e in sorted(res['by_name'].values(), key=lambda x: x['name'])[:12]:
        samples.append(dict(obligation=e['name'], kind=e['kind'], clause=e.get('clause'), status=e['status'],
                            path_instances=e['instances'], hypotheses_max=e['max_size']))
    trusted = list(R.ENCODING_ASSUMPTIONS)
    for key in res['assumed']:
        c = REG.primary(key)
        trusted.append(f'assumed contract (not verified): {key}' + (f' -- {c.assumed_reason}' if c and c.assumed_reason else ''))
    trusted += [f'note: {n}' for n in res['notes']]
    cov = dict(obligations=n_ob, discharged=discharged + len(known_hits) * 0,
               checker_cmd=f'./check {pid} --tier {res["tier"]}',
               trusted_base=trusted,
               functions_under_contract=res['funcs'],
               inlined_callees=res['inlined'],
               by_backend=res['backends'],
               solver_time_s=round(res['solver_time'], 3),
               refuted=[dict(obligation=e['name'], clause=e.get('clause')) for e in res['refuted']],
               undecided=[e['name'] for e in res['unknown']] + [f'{k}: {m}' for k, m in res['errors']],
               known_findings=[k.get('what') for e, k in known_hits],
               samples=samples,
               explanation=('every obligation is generated from the current source text of /repo by pyvc and '
                            'discharged by z3 (cvc5 for z3-unknowns); counts are distinct named obligations, '
                            'each possibly checked on several paths'))
    # obligations that are not solver queries: AST-audit sites and closed terms evaluated under CPython
    byb = dict(cov['by_backend'])
    others = [e for e in res['by_name'].values() if e.get('kind') in ('audit', 'closed-term')]
    for e in others:
        for b_ in sorted(e.get('backends') or []):
            byb[b_] = byb.get(b_, 0) + 1
    cov['by_backend'] = byb
    closed = [e for e in others if e['kind'] == 'closed-term']
    if closed:
        cov['closed_terms'] = [dict(obligation=e['name'], clause=e.get('clause'), status=e['status'], value=e.get('model'))
                               for e in closed]
        cov['explanation'] += ('; module-level constants the property depends on are evaluated as closed terms under the '
                               "repository's interpreter (pyvc/native/closed_terms.py; no inputs to quantify over, superset "
                               'tests) and counted among the obligations with back end cpython-closed-term')
    cov['bounded_standins'] = [dict(name=b['name'], covers=b['what'], reason=b['why'], bound=b['bound'], cases=b['cases'],
                                    nontrivial_cases=b['nontrivial'], disagreements=len(b['disagreements']),
                                    tool='/venv/bin/python ' + b['result_file'].rsplit('/', 1)[0], time_s=round(b['time'], 2))
                               for b in res.get('bounded', [])]
    if 'audit' in res:
        cov['audit_sites'] = res['audit']['sites']
        cov['audit_inferred_sets'] = res['audit']['inferred']
        cov['explanation'] = ('order-sensitive uses of sets and other sources of run-to-run variation are enumerated from the '
                              'current source by an AST audit (pyvc/audit_c15.py); each is accepted by a stated rule or by a '
                              'discharged pyvc obligation proving the enclosing function independent of the enumeration order; '
                              + cov['explanation'])
    ev = dict(property_id=pid, tier=res['tier'], seed=res['seed'], level=level, coverage=cov,
              assumptions=trusted, wall_s=round(res['wall'], 2), violations=len(violations) + len(bounded_viol))
    if not partial and not os.environ.get('PYVC_REPO_SRC'):
        # (runs against a scratch copy -- seeded changes, experiments -- never touch the evidence of /repo)
        os.makedirs(os.path.join(VERIF, 'evidence'), exist_ok=True)
        with open(os.path.join(VERIF, 'evidence', f'{pid}.json'), 'w') as f:
            json.dump(ev, f, indent=1, default=str)
    # ---- exit status ------------------------------------------------------------------------------
    if res['crashes']:
        return R.EXIT_CRASH
    if violations or bounded_viol:
        return R.EXIT_VIOLATION
    if n_ob == 0:
        print('no obligations generated: refusing to report success')
        return R.EXIT_CRASH
    if res['errors'] or res['unknown'] or res['vac_bad']:
        return R.EXIT_UNDECIDED
    return R.EXIT_HELD


def make_replay(pid, e):
    """Try to replay the counter-model natively; otherwise a replay file naming the obligation."""
    from .replay import try_replay
    try:
        path, reproduced, text = try_replay(pid, e)
    except Exception as ex:  # noqa
        path, reproduced, text = None, False, f'(replay attempt failed: {ex!r})'
    if reproduced:
        return path, ''
    fn = R.write_replay(pid, e, extra=text or '')
    return fn, ' no-failing-input-found'
