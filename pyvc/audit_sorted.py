"""C04 / C03 / C16 (precondition of the second pass): mechanical audit that the list the engine's second pass walks has just
been sorted by address.

The block contract of the second pass (contracts/c02_engine.py: OVERLAP) REQUIRES its list to be sorted by address; that
precondition is established by `list.sort`, which the VC generator does not model.  This audit re-reads the current source
every run and accepts only the documented shape: the second `for ... in <L>:` loop over the list of compilable lines is
preceded -- with nothing in between that can change <L> -- by `<L>.sort(key=lambda <x>: <x>.address)` without `reverse`
(CPython's list.sort is a stable ascending sort by the key; trusted).  Anything else (no sort, another key, reverse=...,
a statement in between that rebinds, extends or reorders <L>) is reported."""
import ast

ENGINE_KEY = 'bespokeasm.assembler.engine:Assembler.assemble_bytecode'
LIST = 'compilable_line_obs'


def touches(stmt, name):
    """may the statement change the list `name` (rebinding it, or calling a mutating method on it)?"""
    for n in ast.walk(stmt):
        if isinstance(n, (ast.Assign, ast.AugAssign, ast.AnnAssign)):
            for t in (n.targets if isinstance(n, ast.Assign) else [n.target]):
                for m in ast.walk(t):
                    if isinstance(m, ast.Name) and m.id == name:
                        return f'assignment at line {n.lineno}'
        if isinstance(n, ast.Call) and isinstance(n.func, ast.Attribute) and isinstance(n.func.value, ast.Name) \
                and n.func.value.id == name and n.func.attr in ('sort', 'reverse', 'append', 'extend', 'insert', 'pop',
                                                                'remove', 'clear', '__setitem__'):
            return f'{name}.{n.func.attr}(...) at line {n.lineno}'
        if isinstance(n, ast.Delete):
            return f'del at line {n.lineno}'
    return None


def run_audit(repo):
    fi = repo.funcs.get(ENGINE_KEY)
    if fi is None:
        return [dict(name='second-pass-sorted/anchor', verdict='undecided', detail='Assembler.assemble_bytecode not found')]
    body = fi.node.body
    loops = [i for i, s in enumerate(body) if isinstance(s, ast.For) and isinstance(s.iter, ast.Name) and s.iter.id == LIST]
    if len(loops) < 2:
        return [dict(name='second-pass-sorted/anchor', verdict='undecided',
                     detail=f'fewer than two top-level loops over {LIST} in assemble_bytecode')]
    second = loops[1]
    # the last statement before the second loop that touches the list must be the documented sort
    last = None
    for i in range(second - 1, loops[0], -1):
        why = touches(body[i], LIST)
        if why:
            last = (i, why)
            break
    ok, detail = False, f'no sort of {LIST} between the first and the second pass'
    if last is not None:
        s = body[last[0]]
        call = s.value if isinstance(s, ast.Expr) and isinstance(s.value, ast.Call) else None
        if call is not None and isinstance(call.func, ast.Attribute) and call.func.attr == 'sort' and not call.args \
                and [k.arg for k in call.keywords] == ['key'] and isinstance(call.keywords[0].value, ast.Lambda):
            lam = call.keywords[0].value
            p = lam.args.args[0].arg if len(lam.args.args) == 1 else None
            if p and isinstance(lam.body, ast.Attribute) and lam.body.attr == 'address' \
                    and isinstance(lam.body.value, ast.Name) and lam.body.value.id == p:
                ok, detail = True, f'line {s.lineno}: {ast.unparse(s)} is the last statement that touches {LIST} before the second pass'
            else:
                detail = f'line {s.lineno}: the list is sorted by another key than the address: {ast.unparse(s)}'
        else:
            detail = f'the last statement that touches {LIST} before the second pass is not the documented sort: {last[1]}'
    return [dict(name='second-pass-sorted/by-address', verdict='ok' if ok else 'violation', detail=detail)]
