"""Axiomatic models of the CPython builtins used on the verified paths.  Each model is
listed in the trusted base; the differential test in pyvc/selfcheck.py runs them against CPython."""
import ast

import z3

from . import vtypes as T
from .vtypes import INT, BOOL, STR, NONE, FLOAT

I = z3.IntVal
POW2_TABLE_MAX = 72


class Builtins:
    def __init__(self, ex):
        self.ex = ex
        self._pow2 = None
        self._defs = {}

    # ---- 2**k: exact table for 0..72, uninterpreted (positive, doubling) beyond -----------------
    def pow2(self, k):
        if self._pow2 is None:
            f = z3.RecFunction('pow2', z3.IntSort(), z3.IntSort())
            x = z3.Int('x')
            beyond = z3.Function('pow2_big', z3.IntSort(), z3.IntSort())
            body = beyond(x)
            for j in range(POW2_TABLE_MAX, -1, -1):
                body = z3.If(x == j, I(2 ** j), body)
            z3.RecAddDefinition(f, [x], body)
            self._pow2 = f
        return self._pow2(k)

    # ---- bit operators on mathematical integers (two's complement, infinite width) -----------------
    # shifts are exact arithmetic; and/or/xor are uninterpreted and constrained only by lemmas.
    def shl(self, x, k):
        ks = z3.simplify(k)
        if z3.is_int_value(ks):
            return x * I(2 ** ks.as_long())
        return x * self.pow2(k)

    def shr(self, x, k):
        ks = z3.simplify(k)
        if z3.is_int_value(ks):
            return x / I(2 ** ks.as_long())
        return x / self.pow2(k)

    def band(self, x, y):
        # x & (2**k - 1) == x mod 2**k  (CPython fact, listed as axiom `and-mask`)
        for a, b in ((x, y), (y, x)):
            bs = z3.simplify(b)
            if z3.is_int_value(bs):
                v = bs.as_long()
                if v >= 0 and (v + 1) & v == 0:
                    return a % I(v + 1)
        return self.ex.uf('band', z3.IntSort(), z3.IntSort(), z3.IntSort())(x, y)

    def bor(self, x, y):
        return self.ex.uf('bor', z3.IntSort(), z3.IntSort(), z3.IntSort())(x, y)

    def bxor(self, x, y):
        return self.ex.uf('bxor', z3.IntSort(), z3.IntSort(), z3.IntSort())(x, y)

    # ---- floats -----------------------------------------------------------------------------
    def float_binop(self, st, op, a, b, cx, node, k):
        ex = self.ex
        x, y = ex.coerce(a, FLOAT).z, ex.coerce(b, FLOAT).z
        if isinstance(op, ast.Add):
            return k(st, T_SV(FLOAT, x + y))
        if isinstance(op, ast.Sub):
            return k(st, T_SV(FLOAT, x - y))
        if isinstance(op, ast.Mult):
            return k(st, T_SV(FLOAT, x * y))
        if isinstance(op, ast.Div):
            ex.notes.append(f'float division at {ast.unparse(node)} modelled as exact real division')
            return ex.guard_raise(st, cx, y == 0, 'ZeroDivisionError', node,
                                  lambda s: k(s, T_SV(FLOAT, x / y)), why=ast.unparse(node))
        raise_vc(f'float operator {type(op).__name__} outside subset: {ast.unparse(node)}')

    # ---- lists --------------------------------------------------------------------------------
    def list_repeat(self, st, a, b, cx, node, k):
        ex = self.ex
        lst, n = (a, b) if a.ty.kind == 'list' else (b, a)
        content = ex.list_content(st, lst)
        n = ex.coerce(n, INT).z
        # [v] * n : a sequence of max(n,0) copies; characterised by length and pointwise value
        if z3.is_app_of(z3.simplify(content), z3.Z3_OP_SEQ_UNIT) or True:
            s2, r = ex.alloc(st, lst.ty, 'rep')
            res = ex.fresh_z(z3.SeqSort(T.sort_of(lst.ty.args[0])), 'repseq')
            m = z3.Length(content)
            cnt = z3.If(n > 0, n, I(0))
            j = z3.Int('j!rep')
            s2 = s2.assume(z3.Length(res) == m * cnt)
            simp_m = z3.simplify(m)
            if z3.is_int_value(simp_m) and simp_m.as_long() == 1:
                s2 = s2.assume(z3.ForAll([j], z3.Implies(z3.And(j >= 0, j < cnt), res[j] == content[0])))
            else:
                raise_vc('list repetition of a non-singleton outside subset')
            s2 = ex.set_list_content(s2, r, res)
            return k(s2, r)

    def slice(self, st, e, cx, k):
        ex = self.ex
        sl = e.slice
        if sl.step is not None:
            raise_vc('slice step outside subset')
        parts = [p for p in (sl.lower, sl.upper) if p is not None]

        def f(st, vs):
            base = vs[0]
            rest = vs[1:]
            lo = rest.pop(0) if sl.lower is not None else None
            hi = rest.pop(0) if sl.upper is not None else None
            t = base.ty
            if t.kind == 'list':
                content = ex.list_content(st, base)
            elif t.kind in ('seq', 'str'):
                content = base.z
            else:
                raise_vc(f'slice of {t!r} outside subset')
            n = z3.Length(content)

            def norm(v, dflt):
                if v is None:
                    return dflt
                z = ex.coerce(v, INT).z
                z = z3.If(z < 0, z3.If(z + n < 0, I(0), z + n), z3.If(z > n, n, z))
                return z
            a = norm(lo, I(0))
            b = norm(hi, n)
            ln = z3.If(b > a, b - a, I(0))
            res = z3.SubSeq(content, a, ln) if t.kind != 'str' else z3.SubString(content, a, ln)
            if t.kind == 'list':
                s2, r = ex.alloc(st, t, 'slc')
                return k(ex.set_list_content(s2, r, res), r)
            return k(st, T_SV(t, res))
        return ex.ev_list(st, [e.value] + parts, cx, f)

    def listcomp(self, st, e, cx, k):
        raise_vc(f'comprehension outside subset: {ast.unparse(e)}')


def raise_vc(msg):
    from .engine import VCError
    raise VCError(msg)


def T_SV(ty, z):
    from .engine import SV
    return SV(ty, z)
