"""Axiomatic models of the CPython builtins used on the verified paths.  Each model is
listed in the trusted base; the differential test in pyvc/selfcheck.py runs them against CPython."""
import ast

import z3

from . import vtypes as T
from . import inst
from .vtypes import INT, BOOL, STR, NONE, FLOAT

I = z3.IntVal
POW2_TABLE_MAX = 72


class Builtins:
    def __init__(self, ex):
        self.ex = ex
        self._pow2 = None
        self._defs = {}

    # ---- 2**k: exact table for 0..72, uninterpreted (positive, doubling) beyond -----------------
    def pow2(self, k):
        if self._pow2 is None:
            from . import inst
            f = z3.Function('pow2', z3.IntSort(), z3.IntSort())
            x = z3.Int('x!pow2')
            beyond = z3.Function('pow2_big', z3.IntSort(), z3.IntSort())
            # outside the table only positivity is known (1 + |u(x)|)
            body = 1 + z3.If(beyond(x) >= 0, beyond(x), -beyond(x))
            for j in range(POW2_TABLE_MAX, -1, -1):
                body = z3.If(x == j, I(2 ** j), body)
            inst.define(f, [x], body)
            self._pow2 = f
        ks = z3.simplify(k)
        if z3.is_int_value(ks) and 0 <= ks.as_long() <= POW2_TABLE_MAX:
            return I(2 ** ks.as_long())
        return self._pow2(ks)        # always the simplified exponent: one canonical term per exponent

    # ---- division / modulus / product by a symbolic power of two -----------------------------------------
    # Kept opaque (uninterpreted pdiv/pmod/pmul over the divisor term) so that the solver does not start nonlinear
    # reasoning about them; pyvc.discharge.fold turns them into real div/mod/mul as soon as the divisor is a numeral
    # (after a case split on the exponent).  Abstraction can only lose proofs.
    def pdiv(self, x, d):
        ds = z3.simplify(d)
        if z3.is_int_value(ds):
            return x / ds
        return self.ex.uf('pdiv', z3.IntSort(), z3.IntSort(), z3.IntSort())(x, d)

    def pmod(self, x, d):
        ds = z3.simplify(d)
        if z3.is_int_value(ds):
            return x % ds
        return self.ex.uf('pmod', z3.IntSort(), z3.IntSort(), z3.IntSort())(x, d)

    def pmul(self, x, d):
        ds = z3.simplify(d)
        if z3.is_int_value(ds):
            return x * ds
        xs = z3.simplify(x)
        if z3.is_int_value(xs):
            return xs * d
        return self.ex.uf('pmul', z3.IntSort(), z3.IntSort(), z3.IntSort())(x, d)

    def is_pow2_term(self, z):
        return self._pow2 is not None and z3.is_app(z) and z.decl().eq(self._pow2)

    # ---- bit operators on mathematical integers (two's complement, infinite width) -----------------
    # shifts are exact arithmetic; and/or/xor are uninterpreted and constrained only by lemmas.
    def shl(self, x, k):
        ks = z3.simplify(k)
        if z3.is_int_value(ks):
            return x * I(2 ** ks.as_long())
        return self.pmul(x, self.pow2(k))

    def shr(self, x, k):
        ks = z3.simplify(k)
        if z3.is_int_value(ks):
            return x / I(2 ** ks.as_long())
        return self.pdiv(x, self.pow2(k))

    def band(self, x, y):
        # x & (2**k - 1) == x mod 2**k  (CPython fact, listed as axiom `and-mask`)
        for a, b in ((x, y), (y, x)):
            bs = z3.simplify(b)
            if z3.is_int_value(bs):
                v = bs.as_long()
                if v >= 0 and (v + 1) & v == 0:
                    return a % I(v + 1)
                if v > 0 and v & (v - 1) == 0:
                    # single-bit mask: x & 2**q == ((x div 2**q) mod 2) * 2**q  (CPython fact, axiom `and-single-bit`)
                    return ((a / I(v)) % 2) * I(v)
            kk = self.match_mask(b)
            if kk is not None:
                return self.pmod(a, self.pow2(kk))
        return self.ex.uf('band', z3.IntSort(), z3.IntSort(), z3.IntSort())(x, y)

    def match_mask(self, z):
        """k if z is syntactically 2**k - 1 (as built by `(1 << k) - 1` or `2**k - 1`), else None"""
        if self._pow2 is None:
            return None
        def is_pow2(t):
            if z3.is_app(t) and t.decl().eq(self._pow2):
                return t.arg(0)
            if z3.is_app_of(t, z3.Z3_OP_MUL) and t.num_args() == 2:
                a, b = t.arg(0), t.arg(1)
                if z3.is_int_value(a) and a.as_long() == 1:
                    return is_pow2(b)
                if z3.is_int_value(b) and b.as_long() == 1:
                    return is_pow2(a)
            return None
        if z3.is_app_of(z, z3.Z3_OP_SUB) and z.num_args() == 2:
            one = z.arg(1)
            if z3.is_int_value(one) and one.as_long() == 1:
                return is_pow2(z.arg(0))
        if z3.is_app_of(z, z3.Z3_OP_ADD) and z.num_args() == 2:
            for a, b in ((z.arg(0), z.arg(1)), (z.arg(1), z.arg(0))):
                if z3.is_int_value(b) and b.as_long() == -1:
                    return is_pow2(a)
        return None

    @staticmethod
    def single_bit_times_01(y):
        """(c, v) if y is syntactically c * v with c a power of two and v of the form (t mod 2); (c, None) if y == c"""
        y = z3.simplify(y)
        if z3.is_int_value(y):
            c = y.as_long()
            if c > 0 and c & (c - 1) == 0:
                return c, None
            return None
        def is01(t):
            return z3.is_app_of(t, z3.Z3_OP_MOD) and z3.is_int_value(t.arg(1)) and t.arg(1).as_long() == 2
        if is01(y):
            return 1, y
        if z3.is_app_of(y, z3.Z3_OP_MUL) and y.num_args() == 2:
            a, b = y.arg(0), y.arg(1)
            for c_, v_ in ((a, b), (b, a)):
                if z3.is_int_value(c_) and is01(v_):
                    c = c_.as_long()
                    if c > 0 and c & (c - 1) == 0:
                        return c, v_
        return None

    def bor_exact(self, x, y):  # noqa (also called with self=None)
        """x | (c*v) for a single bit c and v in {0,1}:  x + c*v - (c if v == 1 and bit c of x is set else 0).
        Exact for every int x (CPython fact, axiom `or-single-bit`)."""
        for a, b in ((x, y), (y, x)):
            m = Builtins.single_bit_times_01(b)
            if m is not None:
                c, v = m
                bit_set = (a / I(c)) % 2 == 1
                if v is None:
                    return a + z3.If(bit_set, I(0), I(c))
                return a + I(c) * v - z3.If(z3.And(v == 1, bit_set), I(c), I(0))
            bs = z3.simplify(b)
            if z3.is_int_value(bs) and bs.as_long() == 0:
                return a
        return None

    def bor(self, x, y, st=None):
        ex_ = self.bor_exact(x, y)
        if ex_ is not None:
            return ex_
        # eager use of the (separately proved) lemma `or_sets_clear_bit`: when the path condition already
        # implies that y is 0 or a single bit that is clear in the byte x, x | y is x + y.
        if st is not None and 'or_sets_clear_bit' in self.ex.reg.lemmas:
            hyp = z3.And(x >= 0, x <= 255,
                         z3.Or([y == 0] + [z3.And(y == 2 ** p, x % (2 ** (p + 1)) == 0) for p in range(8)]))
            s = z3.Solver()
            s.set('timeout', 2000)
            for a in st.pc + st.guards:
                if not z3.is_quantifier(a):
                    s.add(a)
            s.add(z3.Not(hyp))
            if s.check() == z3.unsat:
                self.ex.lemmas_applied.add('or_sets_clear_bit')
                return z3.simplify(x + y)
        return self.ex.uf('bor', z3.IntSort(), z3.IntSort(), z3.IntSort())(x, y)

    def bxor(self, x, y):
        return self.ex.uf('bxor', z3.IntSort(), z3.IntSort(), z3.IntSort())(x, y)

    # ---- floats -----------------------------------------------------------------------------
    def float_binop(self, st, op, a, b, cx, node, k):
        ex = self.ex
        x, y = ex.coerce(a, FLOAT).z, ex.coerce(b, FLOAT).z
        if isinstance(op, ast.Add):
            return k(st, T_SV(FLOAT, x + y))
        if isinstance(op, ast.Sub):
            return k(st, T_SV(FLOAT, x - y))
        if isinstance(op, ast.Mult):
            return k(st, T_SV(FLOAT, x * y))
        if isinstance(op, ast.Div):
            ex.notes.append(f'float division at {ast.unparse(node)} modelled as exact real division')
            return ex.guard_raise(st, cx, y == 0, 'ZeroDivisionError', node,
                                  lambda s: k(s, T_SV(FLOAT, x / y)), why=ast.unparse(node))
        raise_vc(f'float operator {type(op).__name__} outside subset: {ast.unparse(node)}')

    # ---- lists --------------------------------------------------------------------------------
    def list_repeat(self, st, a, b, cx, node, k):
        ex = self.ex
        lst, n = (a, b) if a.ty.kind == 'list' else (b, a)
        m = ex.list_len(st, lst)
        arr = ex.list_arr(st, lst)
        n = ex.coerce(ex.unwrap_num(st, n, cx, node), INT).z
        cnt = z3.If(n > 0, n, I(0))
        simp_m = z3.simplify(m)
        if not (z3.is_int_value(simp_m) and simp_m.as_long() == 1):
            raise_vc('list repetition of a non-singleton outside subset')
        # [v] * n : max(n, 0) copies of v
        s2, r = ex.new_list(st, lst.ty, cnt, z3.K(z3.IntSort(), ex.select(arr, I(0))), 'rep')
        return k(s2, r)

    def slice(self, st, e, cx, k):
        ex = self.ex
        sl = e.slice
        if sl.step is not None:
            raise_vc('slice step outside subset')
        parts = [p for p in (sl.lower, sl.upper) if p is not None]

        def f(st, vs):
            base = vs[0]
            rest = vs[1:]
            lo = rest.pop(0) if sl.lower is not None else None
            hi = rest.pop(0) if sl.upper is not None else None
            t = base.ty
            if t.kind == 'list':
                n = ex.list_len(st, base)
            elif t.kind in ('seq', 'str'):
                content = base.z
                n = z3.Length(content)
            else:
                raise_vc(f'slice of {t!r} outside subset')

            def norm(v, dflt):
                if v is None:
                    return dflt
                z = ex.coerce(v, INT).z
                zs = z3.simplify(z)
                if z3.is_int_value(zs) and zs.as_long() == 0:
                    return I(0)
                return z3.If(z < 0, z3.If(z + n < 0, I(0), z + n), z3.If(z > n, n, z))
            a = norm(lo, I(0))
            b = norm(hi, n)
            ln = z3.If(b > a, b - a, I(0))
            if t.kind == 'list':
                arr = ex.list_arr(st, base)
                jv = z3.Int('j!slc')
                s2, r = ex.new_list(st, t, ln, z3.Lambda([jv], z3.Select(arr, jv + a)), 'slc')
                return k(s2, r)
            res = z3.SubSeq(content, a, ln) if t.kind != 'str' else z3.SubString(content, a, ln)
            return k(st, T_SV(t, res))
        return ex.ev_list(st, [e.value] + parts, cx, f)

    def all_bytes(self, arr, lo, hi):
        """arr[lo], ..., arr[hi-1] are byte values (0..255): a recursively defined predicate (unfolded on demand)"""
        if 'all_bytes' not in self._defs:
            A = z3.ArraySort(z3.IntSort(), z3.IntSort())
            f = z3.Function('all_bytes', A, z3.IntSort(), z3.IntSort(), z3.BoolSort())
            a_, l_, h_ = z3.Const('a!ab', A), z3.Int('lo!ab'), z3.Int('hi!ab')
            inst.define(f, [a_, l_, h_], z3.Or(h_ <= l_, z3.And(f(a_, l_, h_ - 1), z3.Select(a_, h_ - 1) >= 0,
                                                                    z3.Select(a_, h_ - 1) <= 255)))
            self._defs['all_bytes'] = f
        return self._defs['all_bytes'](arr, lo, hi)

    def listcomp(self, st, e, cx, k, ety=None):
        """[elt for v in xs] over a list xs, no filter: a fresh list of the same length whose j-th element is elt at
        v = xs[j] (elt must be effect-free and total: it is evaluated once, at a symbolic index)."""
        ex = self.ex
        if len(e.generators) != 1 or e.generators[0].ifs or not isinstance(e.generators[0].target, ast.Name):
            raise_vc(f'comprehension outside subset: {ast.unparse(e)}')
        g = e.generators[0]
        from .engine import SV
        from . import vtypes as T

        def f(st, xs):
            if xs.ty.kind != 'list':
                raise_vc(f'comprehension over {xs.ty!r} outside subset: {ast.unparse(e)}')
            ex.counter += 1
            j = z3.Int(f'j!comp{ex.counter}')
            arr = ex.list_arr(st, xs)
            xv = SV(xs.ty.args[0], ex.select(arr, j))
            prev = st.vars.get(g.target.id)
            # the element expression is evaluated once, at the symbolic index j: it must not fork, raise or write;
            # type facts it picks up about xs[j] (assumed of every field read) are kept
            box = []
            ex.ev(st.setvar(g.target.id, xv), e.elt, cx, lambda s_, v_: box.append((s_, v_)) or [])
            if len(box) != 1 or (box[0][0].heap is not st.heap and box[0][0].heap != st.heap):
                raise_vc(f'comprehension element may raise or has effects: {ast.unparse(e)}')
            body = box[0][1]
            st = st.copy(pc=box[0][0].pc)
            if ety is not None and body.ty != ety:
                body = ex.coerce(body, ety, 'comprehension element')
            s2, r = ex.new_list(st, T.lst(body.ty), ex.list_len(st, xs), z3.Lambda([j], body.z), 'comp')
            return k(s2, r)
        return ex.ev(st, g.iter, cx, f)


def raise_vc(msg):
    from .engine import VCError
    raise VCError(msg)


def T_SV(ty, z):
    from .engine import SV
    return SV(ty, z)
