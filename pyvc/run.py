"""Per-property driver: generate VCs from /repo's current working tree, discharge, report."""
import argparse
import glob
import hashlib
import importlib
import json
import multiprocessing as mp
import os
import sys
import time
import traceback

VERIF = os.path.dirname(os.path.dirname(os.path.abspath(__file__)))
sys.path.insert(0, VERIF)

from pyvc.source import Repo  # noqa
from pyvc.registry import REG  # noqa

EXIT_HELD, EXIT_VIOLATION, EXIT_UNDECIDED, EXIT_CRASH = 0, 1, 2, 3

ENCODING_ASSUMPTIONS = [
    'pyvc (our VC generator: heap model, builtin models) is trusted; mitigated by the seeded changes under /verif/seeded (every one must be refuted or left undecided, never passed) and by native replay of contract clauses on counter-models; not eliminated',
    'z3 4.x/5.x and cvc5 soundness',
    'Python int = mathematical integer (exact); // and % encoded as floor division/modulus',
    'bit operators: shifts are exact (x*2**k, x div 2**k); &,|,^ are uninterpreted except x & (2**k-1) == x mod 2**k (CPython fact) and lemmas proved separately',
    'repository type annotations (plus sidecar declare_fields) are input type invariants',
    'print/click.echo/__str__/f-string rendering are total and effect-free',
    "f'{b:02x}' is a deterministic function of the integer b and has two characters for 0 <= b < 256 (CPython's format; used for the listing's rows)",
    'class hierarchy is closed-world (all classes of /repo/src/bespokeasm parsed this run)',
]

_REPO = None


def load_contracts():
    for p in sorted(glob.glob(os.path.join(VERIF, 'contracts', 'c*.py'))):
        importlib.import_module('contracts.' + os.path.basename(p)[:-3])


def _work(task):
    """Worker: one (function, contract) pair -> list of result dicts."""
    key, ci, timeout_ms, label, chunk, block, shard = task[:7]
    pid = task[7] if len(task) > 7 else None
    import z3  # noqa
    from pyvc.engine import Executor
    from pyvc.verify import verify_function
    from pyvc.discharge import solve
    t0 = time.time()
    try:
        c = REG.contracts[key][ci]
        fi = _REPO.funcs.get(key)
        if fi is None:
            return dict(key=key, ci=ci, error=f'anchor-missing: {key} not found in the working tree', results=[], label=label)
        ex = Executor(_REPO, REG)
        obs, err = verify_function(ex, fi, c, label=label, chunk=chunk, block=block)
        results = []
        only = (c.only_for or {}).get(pid)
        skip = ((c.blocks or {}).get(block, {}).get('skip_for', {}) or {}).get(pid) if block else None
        for oi, ob in enumerate(obs):
            if skip is not None and any(x in ob.name for x in skip):
                continue            # an obligation of this block that belongs to another property only
            if shard is not None and oi % shard[1] != shard[0]:
                continue            # another process takes this obligation
            if only is not None and not any(x in ob.name for x in only):
                continue            # this property needs only some of the contract's obligations (the rest run under others)
            r = solve(ob, timeout_ms=c.timeout or timeout_ms)
            zm = r.pop('_z3model', None)
            if r['status'] == 'refuted' and (ob.info or {}).get('_entry_vars') and block is None \
                    and (zm is None or r.get('case')):
                # (a case-split leaf's model does not mention the split term: get a model of the unsplit ground query)
                zm = None
                try:
                    s_ = z3.Solver()
                    s_.set('timeout', 5000)
                    for a_ in ob.assumptions:
                        if not z3.is_quantifier(a_):
                            s_.add(a_)
                    s_.add(z3.Not(ob.goal))
                    from pyvc.discharge import zcheck
                    if zcheck(s_, 5000) == z3.sat:
                        zm = s_.model()
                except z3.Z3Exception:
                    zm = None
            if r['status'] == 'refuted' and zm is not None and (ob.info or {}).get('_entry_vars') and block is None:
                try:
                    from pyvc.replay_harness import extract
                    r['replay_inputs'] = extract(ex, fi, c, ob.info['_entry_vars'], zm)
                except Exception as exr:  # noqa
                    r['replay_inputs'] = None
                    r['replay_note'] = f'input extraction failed: {exr!r}'
            r.update(name=ob.name, kind=ob.kind, clause=(ob.info or {}).get('clause') or (ob.info or {}).get('why'),
                     size=len(ob.assumptions))
            if r['status'] != 'proved':
                r['case'] = f"{(ob.info or {}).get('top_case', '')} {r.get('case', '')}".strip()
            results.append(r)
        return dict(key=key, ci=ci, error=err, results=results, label=label, body_hash=fi.body_hash(),
                    inlined=sorted(ex.inlined), assumed_used=sorted(ex.assumed_used), notes=sorted(set(ex.notes)),
                    gen_solve_s=time.time() - t0, paths=ex.stats['paths'])
    except Exception:
        return dict(key=key, ci=ci, error='crash: ' + traceback.format_exc(), results=[], label=label, crash=True)


def run_tasks(tasks, jobs):
    """Run the tasks on a process pool that survives the death of a worker (a solver crash must not hang the check):
    a broken pool is rebuilt and the unfinished tasks are run again; a task that is still unfinished after three pools
    is reported as a crash of that function (exit 3), never silently dropped."""
    from concurrent.futures import ProcessPoolExecutor, as_completed
    from concurrent.futures.process import BrokenProcessPool
    results = {}
    pending = list(range(len(tasks)))
    for attempt in range(3):
        if not pending:
            break
        workers = jobs if attempt == 0 else max(1, jobs // 2)
        try:
            with ProcessPoolExecutor(max_workers=workers, mp_context=mp.get_context('fork')) as pool:
                futs = {pool.submit(_work, tasks[i]): i for i in pending}
                for f in as_completed(futs):
                    try:
                        results[futs[f]] = f.result()
                    except BrokenProcessPool:
                        raise
                    except Exception:  # noqa
                        t = tasks[futs[f]]
                        results[futs[f]] = dict(key=t[0], ci=t[1], error='crash: ' + traceback.format_exc(), results=[],
                                                label=t[3], crash=True)
        except BrokenProcessPool:
            pass
        pending = [i for i in pending if i not in results]
    for i in pending:
        t = tasks[i]
        results[i] = dict(key=t[0], ci=t[1], error='crash: a worker process died while checking this function (three attempts)',
                          results=[], label=t[3], crash=True)
    return [results[i] for i in range(len(tasks))]


def prove_lemmas(pid, timeout_ms):
    from pyvc.lemmas import prove_lemma
    out = []
    used = set()
    for key, cs in REG.contracts.items():
        for c in cs:
            if pid in c.props:
                used |= set(c.lemmas)
    for name in sorted(used):
        out.append(prove_lemma(_REPO, REG, name, timeout_ms))
    return out


# properties that depend on module-level constants (evaluated as closed terms, pyvc/native/closed_terms.py)
CLOSED_TERM_PROPS = ('C06', 'C19')

BOUNDED_STANDINS = {
    # property -> bounded native checks (never counted as proved; a disagreement is a concrete failing input)
    'C07': [dict(name='expression-parser', script='pyvc/native/bounded_c07.py', quick=['4'], thorough=['5'],
                 what='the recursive-descent parser (_parse_e.._parse_e4, _match, _lexical_analysis): every token sequence '
                      'up to the bound over a 17-symbol alphabet, real parser+evaluator against a reference evaluator '
                      'written from the precedence table of the statement; plus every literal notation (decimal, $ / 0x / '
                      'trailing-H hex, % / b binary, quoted character) for the values 0..599 and four large ones, alone and '
                      'inside an expression',
                 why='list-mutating recursive descent over regex-lexed tokens is outside the VC generator\'s subset')],
    **{pid_: [dict(name='contract-crosscheck-cpython', script='pyvc/native/contract_fuzz.py', quick=['150'], thorough=['4000'],
                   what='random inputs satisfying the precondition, REAL PackedBits.append_bits / MemoryZone.__init__ / '
                        'MemoryZone.current_address setter / PredefinedDataLine.generate_bytes / EmbeddedString.generate_bytes under CPython, the contract\'s own clauses evaluated natively on the '
                        'observed pre/post state',
                   why='guards pyvc\'s model of Python and the trusted axioms behind the proved obligations of these kernels; '
                       'decides nothing about the property',
                   bound='random cases per kernel')] for pid_ in ('C01', 'C05', 'C11', 'C12')},
    'C08': [dict(name='if-comparison', script='pyvc/native/bounded_c08.py', quick=['4'], thorough=['12'],
                 what='IfPreprocessorCondition / ElifPreprocessorCondition._evaluate_condition: 6 operators x integer values '
                      '-N..N, 255, 256, 65535 on both sides x 4 ways of writing a side (decimal, $hex, a defined symbol, a '
                      'parenthesised sum), and the bare form, against "compare integers when both sides are numeric; a bare '
                      'expression means not equal to 0"',
                 why='symbol resolution + expression parsing + comparison of mixed int/str values; under contract only '
                     'through the abstract `comparison_holds`',
                 bound='N')],
    'C16': [dict(name='listing-byte-rows', script='pyvc/native/bounded_c16.py', quick=['64'], thorough=['400'],
                 what='ListingPrettyPrinter._generate_bytecode_line_string: every length up to the bound x row widths 1..8, '
                      'real helper, rows decoded back to the bytes',
                 why='string building of unbounded length (concatenation, len tests, padding) is outside the subset',
                 bound='max bytes per line'),
            dict(name='format-text-rendering', script='pyvc/native/bounded_c16_formats.py', quick=['33'], thorough=['64'],
                 what='the text the four formats render (listing rows incl. continuation rows, hex dump, Intel HEX records, '
                      'minhex): a fixed family of programs (data lengths around the row widths, .org gaps, a muted stretch, '
                      '16- and 24-bit addresses) assembled by the real CLI, every format decoded back to an address-to-byte '
                      'map; the four maps must be equal and agree with the image',
                 why='string formatting of the rows and the intelhex library are outside the subset; the contracts reason '
                     'about the token stream and trust its reading',
                 bound='max data bytes per statement')],
}


def run_bounded(pid, tier):
    import subprocess
    out = []
    for b in BOUNDED_STANDINS.get(pid, []):
        os.makedirs(os.path.join(VERIF, 'replays', pid), exist_ok=True)
        res_file = os.path.join(VERIF, 'replays', pid, f'bounded_{b["name"]}.json')
        env = dict(os.environ, PYTHONPATH=os.environ.get('PYVC_REPO_SRC', '/repo/src'))
        t0 = time.time()
        if os.path.exists(res_file):
            os.remove(res_file)         # (a script that dies must not be answered from the result of an earlier run)
        p = subprocess.run(['/venv/bin/python', os.path.join(VERIF, b['script'])] + b[tier] + [res_file],
                           capture_output=True, text=True, env=env, timeout=3000)
        info = {}
        try:
            info = json.load(open(res_file))
        except Exception:
            pass
        out.append(dict(name=b['name'], what=b['what'], why=b['why'], bound=f'{b.get("bound", "max tokens")} {b[tier][0]}', rc=p.returncode,
                        cases=info.get('cases'), nontrivial=info.get('wellformed_with_3_or_more_tokens'),
                        disagreements=info.get('disagreements', []), result_file=res_file, time=time.time() - t0,
                        stdout=p.stdout[-2000:], stderr=p.stderr[-2000:]))
    return out


def known_findings():
    p = os.path.join(VERIF, 'known_findings.json')
    if os.path.exists(p):
        return json.load(open(p))
    return []


def register_found_overrides(repo):
    """A contract with covers_overrides=True is used at every dynamically dispatched call, so EVERY override of the method
    must satisfy it -- also one that the contracts do not list because it did not exist when they were written.  Each
    override found in the current source that has no contract of its own under that key gets a copy of the base contract
    (behavioural subtyping obligation), named `abs:<Class>.<method> (override found in the source)`."""
    import copy
    added = []
    for key, cs in sorted(REG.contracts.items()):
        for c in list(cs):
            if not c.covers_overrides or c.assumed:
                # (an ASSUMED base contract defines a ghost function by fiat -- "the value this part yields" -- and is
                #  trusted for every override; only verified base contracts are obligations on the overrides)
                continue
            mod, qual = key.split(':')
            parts = qual.split('.')
            base, meth = parts[0], '.'.join(parts[1:])
            for k2, fi2 in sorted(repo.funcs.items()):
                if k2 == key or fi2.cls is None or ':' not in k2:
                    continue
                q2 = k2.split(':')[1].split('.')
                if '.'.join(q2[1:]) != meth or q2[0] == base:
                    continue
                try:
                    sub = repo.is_subclass(q2[0], base)
                except Exception:  # noqa
                    sub = False
                if not sub or k2 in REG.contracts:
                    continue
                c2 = copy.copy(c)
                c2.key, c2.covers_overrides, c2.assumed = k2, False, False
                c2.name = f'abs:{k2.split(":")[1]} (override found in the source)'
                REG.contracts.setdefault(k2, []).append(c2)
                added.append(k2)
    return added


def run(pid, tier, seed=0, jobs=None, only=None, verbose=False):
    global _REPO
    t0 = time.time()
    _REPO = Repo()
    load_contracts()
    register_found_overrides(_REPO)
    timeout_ms = 10000 if tier == 'quick' else 60000
    tasks = []
    for key, cs in sorted(REG.contracts.items()):
        for i, c in enumerate(cs):
            if pid in c.props and not c.assumed:
                if only and only not in key:
                    continue
                label = c.name or key.split(':')[1]
                if c.blocks_only:
                    pass
                elif c.cases:
                    nchunk = 32
                    for ch in range(nchunk):
                        tasks.append((key, i, timeout_ms, label, (ch, nchunk), None, None, pid))
                else:
                    tasks.append((key, i, timeout_ms, label, None, None, None, pid))
                for bname, bspec in (c.blocks or {}).items():
                    if pid not in bspec.get('props', c.props):
                        continue
                    ns = bspec.get('shards', 1)
                    for sh in range(ns):
                        tasks.append((key, i, timeout_ms, label, None, bname, (sh, ns) if ns > 1 else None, pid))
    assumed = sorted({key for key, cs in REG.contracts.items() for c in cs if pid in c.props and c.assumed})
    jobs = jobs or min(16, max(1, len(tasks)))
    if jobs > 1 and len(tasks) > 1:
        outs = run_tasks(tasks, jobs)
    else:
        outs = [_work(t) for t in tasks]
    lemma_results = prove_lemmas(pid, timeout_ms)
    res = summarise(pid, tier, seed, outs, lemma_results, assumed, time.time() - t0, verbose)
    res['bounded'] = run_bounded(pid, tier)
    res['wall'] = time.time() - t0
    if pid in ('C14', 'C09'):
        if pid == 'C14':
            from pyvc.audit_c14 import run_audit as audit14
        else:
            from pyvc.audit_c09 import run_audit as audit14
        sites = audit14(_REPO)
        res['audit'] = dict(sites=sites, inferred={})
        for s_ in sites:
            st = {'ok': 'proved', 'violation': 'refuted', 'undecided': 'unknown'}[s_['verdict']]
            e = dict(name='audit/' + s_['name'], kind='audit', clause=s_['detail'], instances=1, status=st,
                     backends={'ast-audit'}, fn=audit14.__module__, model=s_['detail'], max_size=0)
            res['by_name'][e['name']] = e
            {'proved': res['proved'], 'refuted': res['refuted'], 'unknown': res['unknown']}[st].append(e)
        res['n_ob'] = len(res['by_name'])
    if pid in ('C04', 'C03', 'C16'):
        from pyvc.audit_sorted import run_audit as audit_sorted
        for s_ in audit_sorted(_REPO):
            st = {'ok': 'proved', 'violation': 'refuted', 'undecided': 'unknown'}[s_['verdict']]
            e = dict(name='audit/' + s_['name'], kind='audit', clause=s_['detail'], instances=1, status=st,
                     backends={'ast-audit'}, fn='pyvc.audit_sorted', model=s_['detail'], max_size=0)
            res['by_name'][e['name']] = e
            {'proved': res['proved'], 'refuted': res['refuted'], 'unknown': res['unknown']}[st].append(e)
        res['n_ob'] = len(res['by_name'])
    if pid in CLOSED_TERM_PROPS:
        import subprocess
        os.makedirs(os.path.join(VERIF, 'replays', pid), exist_ok=True)
        rf = os.path.join(VERIF, 'replays', pid, 'closed_terms.json')
        env = dict(os.environ, PYTHONPATH=os.environ.get('PYVC_REPO_SRC', '/repo/src'))
        p_ = subprocess.run(['/venv/bin/python', os.path.join(VERIF, 'pyvc/native/closed_terms.py'), rf],
                            capture_output=True, text=True, env=env, timeout=300)
        try:
            terms = json.load(open(rf))
        except Exception:
            terms = [dict(name='closed-terms', clause='the constants could be evaluated', holds=None,
                          value=(p_.stderr or p_.stdout)[-500:])]
        for t_ in terms:
            st = 'unknown' if t_['holds'] is None else ('proved' if t_['holds'] else 'refuted')
            e = dict(name='closed-term/' + t_['name'], kind='closed-term', clause=t_['clause'], instances=1, status=st,
                     backends={'cpython-closed-term'}, fn='pyvc/native/closed_terms.py', model=json.dumps(t_['value']),
                     max_size=0)
            res['by_name'][e['name']] = e
            {'proved': res['proved'], 'refuted': res['refuted'], 'unknown': res['unknown']}[st].append(e)
        res['n_ob'] = len(res['by_name'])
    if pid == 'C15':
        from pyvc.audit_c15 import run_audit
        sites, inferred = run_audit(_REPO)
        res['audit'] = dict(sites=sites, inferred=inferred)
        for s_ in sites:
            name = f'audit/{s_["function"].split(":")[1]}/{s_["kind"]}:{s_["expr"]}'
            st = {'ok': 'proved', 'violation': 'refuted', 'undecided': 'unknown'}[s_['verdict']]
            e = dict(name=name, kind='audit', clause=s_['rule'], instances=1, status=st, backends={'ast-audit'},
                     fn=s_['function'], model=f'{s_["function"]} line {s_["line"]}: {s_["kind"]} over {s_["expr"]}: {s_["rule"]}',
                     max_size=0)
            res['by_name'][name] = e
            {'proved': res['proved'], 'refuted': res['refuted'], 'unknown': res['unknown']}[st].append(e)
        res['n_ob'] = len(res['by_name'])
        res['wall'] = time.time() - t0
    return res


def summarise(pid, tier, seed, outs, lemma_results, assumed, wall, verbose):
    by_name = {}
    errors = []
    crashes = []
    solver_time = 0.0
    backends = {}
    funcs = []
    inlined = set()
    assumed_used = set(assumed)
    notes = set()
    vac_bad = []
    for o in outs:
        if o.get('crash'):
            crashes.append(o)
            continue
        if o['error']:
            errors.append((o['key'], o['error']))
        prev = [f for f in funcs if f['function'] == o['key'] and f['label'] == o['label']]
        if prev:
            prev[0]['path_outcomes'] = (prev[0]['path_outcomes'] or 0) + (o.get('paths') or 0)
        else:
            funcs.append(dict(function=o['key'], label=o['label'], body_sha256_16=o.get('body_hash'),
                              path_outcomes=o.get('paths')))
        inlined |= set(o.get('inlined', []))
        assumed_used |= set(o.get('assumed_used', []))
        notes |= set(o.get('notes', []))
        for r in o['results']:
            solver_time += r['time']
            if r['kind'] == 'vacuity':
                if r['status'] == 'proved':
                    vac_bad.append(r['name'])
                continue
            e = by_name.setdefault(r['name'], dict(name=r['name'], kind=r['kind'], clause=r.get('clause'),
                                                   instances=0, status='proved', backends=set(), fn=o['key'],
                                                   model=None, max_size=0))
            e['instances'] += 1
            e['backends'].add(r['backend'])
            e['max_size'] = max(e['max_size'], r.get('size', 0))
            if r['status'] == 'refuted':
                e['status'] = 'refuted'
                e['model'] = e['model'] or r.get('smt_model')
                e['model_dict'] = e.get('model_dict') or r.get('model')
                e['case'] = e.get('case') or r.get('case')
                if r.get('replay_inputs'):
                    e.setdefault('replay_inputs', []).append(r['replay_inputs'])
            elif r['status'] == 'unknown' and e['status'] == 'proved':
                e['status'] = 'unknown'
                e['case'] = r.get('case')
    for lr in lemma_results:
        e = dict(name='lemma/' + lr['name'], kind='lemma', clause=lr.get('statement'), instances=1,
                 status=lr['status'], backends={lr['backend']}, fn='(lemma library)', model=lr.get('model'), max_size=0)
        by_name[e['name']] = e
        solver_time += lr.get('time', 0)
    for e in by_name.values():
        for b in e['backends']:
            backends[b] = backends.get(b, 0) + 1
    n_ob = len(by_name)
    proved = [e for e in by_name.values() if e['status'] == 'proved']
    refuted = [e for e in by_name.values() if e['status'] == 'refuted']
    unknown = [e for e in by_name.values() if e['status'] == 'unknown']
    return dict(pid=pid, tier=tier, seed=seed, by_name=by_name, n_ob=n_ob, proved=proved, refuted=refuted,
                unknown=unknown, errors=errors, crashes=crashes, solver_time=solver_time, backends=backends,
                funcs=funcs, inlined=sorted(inlined), assumed=sorted(assumed_used), notes=sorted(notes),
                vac_bad=vac_bad, wall=wall)


def write_replay(pid, e, extra=''):
    d = os.path.join(VERIF, 'replays', pid)
    os.makedirs(d, exist_ok=True)
    fn = os.path.join(d, hashlib.sha1(e['name'].encode()).hexdigest()[:12] + '.txt')
    with open(fn, 'w') as f:
        f.write(f'property: {pid}\nfailed obligation: {e["name"]}\nfunction: {e["fn"]}\nkind: {e["kind"]}\n'
                f'clause: {e.get("clause")}\n\nverifier output (z3 counter-model of the negated obligation):\n{e.get("model")}\n{extra}\n')
    return fn
