"""Call handling: contracts at call sites, inlining, dynamic dispatch, constructors,
builtin functions/methods, and the spec-only vocabulary (old, forall, implies, ...)."""
import ast

import z3

from . import vtypes as T
from .vtypes import INT, BOOL, STR, NONE, FLOAT, OPAQUE
from .engine import SV, NONE_SV, VCError, Cx, State, truthy

I = z3.IntVal


def kwmap(e):
    return {kw.arg: kw.value for kw in e.keywords if kw.arg is not None}


def ev_call(ex, st, e, cx, k):
    f = e.func
    kws = kwmap(e)
    # ---- spec vocabulary -----------------------------------------------------
    if isinstance(f, ast.Name) and cx.spec:
        r = spec_call(ex, st, e, cx, k)
        if r is not NotImplemented:
            return r
    if isinstance(f, ast.Attribute) and f.attr in ('write', 'getvalue') and isinstance(f.value, ast.Name) \
            and f.value.id in st.vars and st.vars[f.value.id].ty == T.SIO and not cx.spec:
        if f.attr == 'write' and len(e.args) == 1:
            from .methods import sio_write
            return sio_write(ex, st, st.vars[f.value.id], e, cx, k)
        if f.attr == 'getvalue':
            # the text is a function of the tokens (and of presentation details the contracts do not speak about)
            return k(st, ex.fresh(STR, 'text'))
    if isinstance(f, ast.Attribute) and f.attr in ('puts', 'write_hex_file', 'dump') and not cx.spec:
        # methods of an intelhex.IntelHex object (external library), modelled like a StringIO: a list of tokens
        def fih(st, obj):
            if obj.ty != T.SIO:
                raise VCError(f'{ast.unparse(e)}: receiver is not a token list')
            if f.attr != 'puts':
                return k(st, NONE_SV)             # rendering of the stored bytes: trusted to the library
            from .methods import sio_puts
            return sio_puts(ex, st, obj, e, cx, k)
        return ex.ev(st, f.value, cx, fih)
    if isinstance(f, ast.Name) and f.id == 'cls' and cx.fi is not None and cx.fi.kind == 'classmethod' and cx.cls is not None \
            and not cx.spec:
        # cls(...) in a classmethod constructs the defining class (no subclass calls these factories with another cls)
        return construct(ex, st, cx.cls, e, cx, k)
    if isinstance(f, ast.Attribute) and f.attr == 'decode' and isinstance(f.value, ast.Call) \
            and isinstance(f.value.func, ast.Name) and f.value.func.id == 'bytes' and len(f.value.args) == 2 \
            and len(e.args) == 1 and isinstance(e.args[0], ast.Constant) and e.args[0].value == 'unicode_escape':
        # bytes(s, 'utf-8').decode('unicode_escape'): Python's escape processing, an uninterpreted function of the text
        def fdec(s_, v):
            un = ex.uf('unicode_unescape', z3.StringSort(), z3.StringSort())
            if v.ty.kind == 'opt' and v.ty.args[0].kind == 'str':
                dt = T.sort_of(v.ty)
                return ex.guard_raise(s_, cx, dt.is_none(v.z) if hasattr(dt, 'is_none') else z3.Not(dt.is_some(v.z)), 'TypeError', e,
                                      lambda s2: k(s2, SV(STR, un(dt.val(v.z)))), why='bytes(None, ...)')
            return k(s_, SV(STR, un(ex.coerce(v, STR).z)))
        return ex.ev(st, f.value.args[0], cx, fdec)
    if isinstance(f, ast.Name) and f.id not in st.vars:
        nm = f.id
        if nm in ex.reg.specs:
            return call_spec_function(ex, st, nm, e, cx, k)
        g = ex.resolve_global(cx, nm)
        if g is not None and g[0] == 'func':
            return ex.ev_list(st, list(e.args) + list(kws.values()), cx,
                              lambda s, vs: call_function(ex, s, g[1], vs[:len(e.args)],
                                                          dict(zip(kws.keys(), vs[len(e.args):])), cx, e, k))
        if g is not None and g[0] == 'class':
            return construct(ex, st, g[1], e, cx, k)
        return builtin_function(ex, st, nm, e, cx, k)
    if isinstance(f, ast.Attribute):
        # super().m(...)
        if isinstance(f.value, ast.Call) and isinstance(f.value.func, ast.Name) and f.value.func.id == 'super':
            ci, fi = ex.repo.find_method(cx.cls.name, f.attr, after=cx.cls.name)
            if fi is None:
                if f.attr == '__init__':
                    return ex.ev_list(st, list(e.args), cx, lambda s, vs: k(s, NONE_SV))
                raise VCError(f'super().{f.attr} not found')
            selfv = st.vars['self']
            return ex.ev_list(st, list(e.args) + list(kws.values()), cx,
                              lambda s, vs: call_function(ex, s, fi, [selfv] + vs[:len(e.args)],
                                                          dict(zip(kws.keys(), vs[len(e.args):])), cx, e, k))
        if isinstance(f.value, ast.Name) and f.value.id not in st.vars and f.value.id not in cx.spec_vars:
            g = ex.resolve_global(cx, f.value.id)
            if g is not None and g[0] == 'module':
                return module_function(ex, st, g[1], f.attr, e, cx, k)
            if g is not None and g[0] == 'extern' and g[1] == 'packaging' and g[2] == 'version' and f.attr == 'parse':
                # packaging.version.parse: trusted -- a parsed version is its position in the semantic-version order
                def fv(st, v):
                    s_ = ex.coerce(v, STR) if v.ty.kind != 'str' else v
                    return k(st, SV(T.Ty('version'), ex.uf('semver_rank', z3.StringSort(), z3.RealSort())(s_.z)))
                return ex.ev(st, e.args[0], cx, fv)
            if g is not None and g[0] == 'class':
                ci = g[1]
                # nested class constructor  LabelScope.LabelInfo(...)
                if f.attr in ex.repo.classes and ex.repo.classes[f.attr].node in ci.node.body:
                    return construct(ex, st, ex.repo.classes[f.attr], e, cx, k)
                oc, fi = ex.repo.find_method(ci.name, f.attr)
                if fi is not None and fi.kind in ('classmethod', 'staticmethod'):
                    pre = [SV(OPAQUE, I(ex.repo.class_ids[ci.name]))] if fi.kind == 'classmethod' else []
                    return ex.ev_list(st, list(e.args) + list(kws.values()), cx,
                                      lambda s, vs: call_function(ex, s, fi, pre + vs[:len(e.args)],
                                                                  dict(zip(kws.keys(), vs[len(e.args):])), cx, e, k))
                if fi is not None:
                    # Class.method(self, ...) explicit
                    return ex.ev_list(st, list(e.args) + list(kws.values()), cx,
                                      lambda s, vs: call_function(ex, s, fi, vs[:len(e.args)],
                                                                  dict(zip(kws.keys(), vs[len(e.args):])), cx, e, k))
                if f.value.id == 'int' and f.attr == 'from_bytes':
                    return builtin_function(ex, st, 'int.from_bytes', e, cx, k)
                raise VCError(f'call {ast.unparse(f)} outside subset')
            if f.value.id == 'int' and f.attr == 'from_bytes':
                return builtin_function(ex, st, 'int.from_bytes', e, cx, k)

        # os.path.<fn>(...)
        if isinstance(f.value, ast.Attribute) and isinstance(f.value.value, ast.Name) and f.value.value.id == 'os' \
                and f.value.attr == 'path':
            return module_function(ex, st, 'os.path*', f.attr, e, cx, k)

        def with_obj(st, obj):
            return ex.ev_list(st, list(e.args) + list(kws.values()), cx,
                              lambda s, vs: method_call(ex, s, obj, f.attr, vs[:len(e.args)],
                                                        dict(zip(kws.keys(), vs[len(e.args):])), cx, e, k))
        return ex.ev(st, f.value, cx, with_obj)
    # a call through a value: a local bound to / a table entry holding a function of the operator module
    if isinstance(f, (ast.Subscript, ast.Name)):
        def with_fn(st, fv):
            return ex.ev_list(st, list(e.args), cx, lambda s, vs: apply_operator(ex, s, fv, vs, cx, e, k))
        return ex.ev(st, f, cx, with_fn)
    raise VCError(f'call form outside subset: {ast.unparse(e)}')


def apply_operator(ex, st, fv, args, cx, node, k):
    """Apply a function value of the operator module (given by its code) to the arguments."""
    from .engine import OPERATOR_CODES as OC
    if fv.ty.kind == 'union':
        code = T.union_datatype().ui(fv.z)
    elif fv.ty.kind == 'fn':
        code = fv.z
    else:
        raise VCError(f'call of a value of type {fv.ty!r} outside subset: {ast.unparse(node)}')
    if len(args) == 2 and args[0].ty.kind == 'version' and args[1].ty.kind == 'version':
        a, b = args[0].z, args[1].z
        res = z3.BoolVal(False)
        for nm_, r_ in (('ge', a >= b), ('le', a <= b), ('gt', a > b), ('lt', a < b), ('eq', a == b), ('ne', a != b)):
            res = z3.If(code == OC[nm_], r_, res)
        return k(st, SV(BOOL, res))
    # numeric operands: everything is computed over exact reals (ints embedded); bit operators act on the integer parts
    xs = [ex.coerce(a_, FLOAT).z for a_ in args]
    def trunc(r_):
        return z3.If(r_ >= 0, z3.ToInt(r_), -z3.ToInt(-r_))
    if len(xs) == 1:
        return k(st, SV(FLOAT, -xs[0]))
    a, b = xs
    ia, ib = trunc(a), trunc(b)
    fl = z3.ToReal(z3.ToInt(a / b))           # floor of the exact quotient
    table = [('add', a + b), ('sub', a - b), ('mul', a * b), ('truediv', a / b), ('mod', a - b * fl),
             ('and_', z3.ToReal(ex.bi.band(ia, ib))), ('or_', z3.ToReal(ex.bi.bor(ia, ib))),
             ('xor', z3.ToReal(ex.bi.bxor(ia, ib))), ('rshift', z3.ToReal(ex.bi.shr(ia, ib))),
             ('lshift', z3.ToReal(ex.bi.shl(ia, ib)))]
    res = z3.RealVal(0)
    for nm_, r_ in table:
        res = z3.If(code == OC[nm_], r_, res)
    divides = z3.Or(code == OC['truediv'], code == OC['mod'])
    return ex.guard_raise(st, cx, z3.And(divides, b == 0), 'ZeroDivisionError', node,
                          lambda s: k(s, SV(FLOAT, res)), why='division by zero')


# ---------------------------------------------------------------------------- spec vocabulary
def spec_call(ex, st, e, cx, k):
    nm = e.func.id
    if nm == 'old' or nm == 'entry':
        label = 'old' if nm == 'old' else 'entry'
        if nm == 'entry' and len(e.args) > 1:
            label = 'entry:' + e.args[1].value
        if label not in st.snaps:
            raise VCError(f'{nm}() used where no {label} snapshot exists')
        vars_, heap_ = st.snaps[label]
        v = ex.pure(st.copy(vars=vars_, heap=heap_), e.args[0], cx)
        return k(st, v)
    if nm == 'implies':
        a = ex.pure(st, e.args[0], cx)
        ta = ex.truth(st, a)
        b = ex.pure(st.copy(guards=st.guards + (ta,)), e.args[1], cx)
        return k(st, SV(BOOL, z3.Implies(ta, ex.truth(st, b))))
    if nm == 'iff':
        a = ex.pure(st, e.args[0], cx)
        b = ex.pure(st, e.args[1], cx)
        return k(st, SV(BOOL, ex.truth(st, a) == ex.truth(st, b)))
    if nm in ('forall', 'exists'):
        lam = e.args[0]
        kws = kwmap(e)
        tys = {}
        if 'types' in kws:
            tys = ast.literal_eval(kws['types'])
        names = [a.arg for a in lam.args.args]
        bound = []
        sub = cx_with_vars(cx, {})
        for n in names:
            ty = ex.tenv.parse(tys.get(n, 'int'))
            v = SV(ty, z3.Const(f'{n}!q{ex.counter}', T.sort_of(ty)))
            ex.counter += 1
            bound.append(v)
            sub.spec_vars[n] = v
        # bound variables shadow locals
        vars2 = {a: b for a, b in st.vars.items() if a not in names}
        body = ex.pure(st.copy(vars=vars2), lam.body, sub)
        bz = ex.truth(st, body)
        pats = []
        if 'trigger' in kws:
            trg = kws['trigger']
            tl = trg.elts if isinstance(trg, (ast.List, ast.Tuple)) else [trg]
            pats = [z3.MultiPattern(*[ex.pure(st.copy(vars=vars2), t, sub).z for t in tl])] if len(tl) > 1 \
                else [ex.pure(st.copy(vars=vars2), tl[0], sub).z]
        q = (z3.ForAll if nm == 'forall' else z3.Exists)([b.z for b in bound], bz, patterns=pats)
        return k(st, SV(BOOL, q))
    if nm == 'ite':
        c = ex.truth(st, ex.pure(st, e.args[0], cx))
        a = ex.pure(st, e.args[1], cx)
        b = ex.pure(st, e.args[2], cx)
        if a.ty != b.ty:
            tt = ex.join(a.ty, b.ty)
            a, b = ex.coerce(a, tt), ex.coerce(b, tt)
        return k(st, SV(a.ty, z3.If(c, a.z, b.z)))
    if nm == 'typeis':
        v = ex.pure(st, e.args[0], cx)
        cn = e.args[1].value if isinstance(e.args[1], ast.Constant) else e.args[1].id
        ids = [ex.repo.class_ids[cn]]
        return k(st, SV(BOOL, z3.And(v.z != 0, ex.clsof(v.z) == ids[0])))
    if nm in ('trunc', 'floor'):
        v = ex.pure(st, e.args[0], cx)
        r_ = ex.coerce(v, FLOAT).z
        if nm == 'floor':
            return k(st, SV(INT, z3.ToInt(r_)))
        return k(st, SV(INT, z3.If(r_ >= 0, z3.ToInt(r_), -z3.ToInt(-r_))))
    if nm == 'real':
        v = ex.pure(st, e.args[0], cx)
        return k(st, ex.coerce(v, FLOAT))
    if nm == 'union_str':
        v = ex.pure(st, e.args[0], cx)
        return k(st, SV(STR, T.union_datatype().us(v.z)))
    if nm == 'union_is_str':
        v = ex.pure(st, e.args[0], cx)
        return k(st, SV(BOOL, T.union_datatype().is_US(v.z)))
    if nm == 'digit_at':
        v, i_ = ex.pure(st, e.args[0], cx), ex.pure(st, e.args[1], cx)
        f_ = ex.uf('int_of_str', z3.StringSort(), z3.IntSort())
        return k(st, SV(INT, f_(z3.SubString(v.z, i_.z, 1))))
    if nm == 'pmod':
        a_, b_ = ex.pure(st, e.args[0], cx), ex.pure(st, e.args[1], cx)
        return k(st, SV(INT, ex.bi.pmod(a_.z, b_.z)))
    if nm == 'domain_empty':
        v = ex.pure(st, e.args[0], cx)
        kq = z3.Const('k!de', T.sort_of(v.ty.args[0]))
        dom = ex.dict_dom(st, v)
        return k(st, SV(BOOL, z3.ForAll([kq], z3.Not(z3.Select(dom, kq)), patterns=[z3.Select(dom, kq)])))
    if nm in ('words_of', 're_sub_words'):
        vs = [ex.pure(st, a, cx) for a in e.args]
        if nm == 'words_of':
            # the whole-word identifiers of a text: the matches of \b(SYMBOL_PATTERN)\b (trusted library semantics)
            pat = z3.Concat(z3.StringVal('\\b('), vs[0].z, z3.StringVal(')\\b'))
            ms = ex.uf('re_matches', z3.StringSort(), z3.StringSort(), z3.ArraySort(z3.StringSort(), z3.BoolSort()))
            return k(st, SV(T.mset(STR), ms(z3.simplify(pat), vs[1].z)))
        esc = ex.uf('re_escape', z3.StringSort(), z3.StringSort())
        pat = z3.Concat(z3.StringVal('\\b'), esc(vs[0].z), z3.StringVal('\\b'))
        f_ = ex.uf('re_sub', z3.StringSort(), z3.StringSort(), z3.StringSort(), z3.StringSort())
        return k(st, SV(STR, f_(pat, vs[1].z, vs[2].z)))
    if nm in ('str_lower', 'str_strip', 'str_upper', 'str_rstrip', 'str_lstrip'):
        v = ex.pure(st, e.args[0], cx)
        return k(st, SV(STR, ex.uf(nm, z3.StringSort(), z3.StringSort())(v.z)))
    if nm == 'cfg_key_at':
        c_, i_ = ex.pure(st, e.args[0], cx), ex.pure(st, e.args[1], cx)
        return k(st, SV(STR, ex.uf('cfg_key_at', z3.IntSort(), z3.IntSort(), z3.StringSort())(c_.z, i_.z)))
    if nm == 'cfg_len':
        v = ex.pure(st, e.args[0], cx)
        return k(st, SV(INT, ex.uf('cfg_len', z3.IntSort(), z3.IntSort())(v.z)))
    if nm == 'cfg_item':
        v, i_ = ex.pure(st, e.args[0], cx), ex.pure(st, e.args[1], cx)
        return k(st, SV(T.CFG, ex.uf('cfg_item', z3.IntSort(), z3.IntSort(), z3.IntSort())(v.z, ex.coerce(i_, INT).z)))
    if nm in ('cfg_int', 'cfg_str', 'cfg_bool'):
        v = ex.pure(st, e.args[0], cx)
        return k(st, ex.coerce(v, {'cfg_int': INT, 'cfg_str': STR, 'cfg_bool': BOOL}[nm]))
    if nm == 'semver_lt':
        a, b = [ex.pure(st, x, cx) for x in e.args]
        rk = ex.uf('semver_rank', z3.StringSort(), z3.RealSort())
        a = ex.coerce(a, STR) if a.ty.kind != 'str' else a
        b = ex.coerce(b, STR) if b.ty.kind != 'str' else b
        return k(st, SV(BOOL, rk(a.z) < rk(b.z)))
    if nm == 'path_real':
        v = ex.pure(st, e.args[0], cx)
        return k(st, SV(STR, ex.uf('path_realpath1', z3.StringSort(), z3.StringSort())(v.z)))
    if nm in ('path_exists', 'path_join'):
        vs = [ex.pure(st, a, cx) for a in e.args]
        if nm == 'path_exists':
            return k(st, SV(BOOL, ex.uf('path_exists', z3.StringSort(), z3.BoolSort())(vs[0].z)))
        return k(st, SV(STR, ex.uf('path_join2', z3.StringSort(), z3.StringSort(), z3.StringSort())(vs[0].z, vs[1].z)))
    if nm == 'isa':
        v = ex.pure(st, e.args[0], cx)
        cn = e.args[1].value
        return k(st, SV(BOOL, ex.isinstance_cond(v, cn)))
    if nm == 'content':
        # content(list) : its element sequence as an immutable seq value
        v = ex.pure(st, e.args[0], cx)
        if v.ty.kind == 'opt':
            v = SV(v.ty.args[0], v.z)
        raise VCError('content() is no longer supported: use elems(l) / len(l)')
    if nm == 'elems':
        # elems(list): its element array (index -> element) as a math value
        v = ex.pure(st, e.args[0], cx)
        if v.ty.kind == 'opt':
            v = SV(v.ty.args[0], v.z)
        if v.ty.kind == 'list':
            return k(st, SV(T.Ty('arr', v.ty.args[0]), ex.list_arr(st, v)))
        raise VCError('elems() of a non-list')
    if nm == 'domain':
        v = ex.pure(st, e.args[0], cx)
        return k(st, SV(T.mset(v.ty.args[0]), ex.dict_dom(st, v)))
    if nm == 'mapping':
        v = ex.pure(st, e.args[0], cx)
        return k(st, SV(T.mmap(v.ty.args[0], v.ty.args[1]), ex.dict_val(st, v)))
    if nm == 'members':
        v = ex.pure(st, e.args[0], cx)
        return k(st, SV(T.mset(v.ty.args[0]), ex.set_content(st, v)))
    if nm == 'allocated':
        v = ex.pure(st, e.args[0], cx)
        al = ex.heap_get(st, 'alloc', z3.ArraySort(z3.IntSort(), z3.BoolSort()))
        return k(st, SV(BOOL, z3.Select(al, v.z)))
    if nm == 'fresh':
        # fresh(x): x was not allocated in the old state
        v = ex.pure(st, e.args[0], cx)
        vars_, heap_ = st.snaps['old']
        al = heap_.get('alloc', ex.heap_get(st.copy(heap={}), 'alloc', z3.ArraySort(z3.IntSort(), z3.BoolSort())))
        return k(st, SV(BOOL, z3.Not(z3.Select(al, v.z))))
    if nm == 'unicode_unescape':
        v = ex.pure(st, e.args[0], cx)
        return k(st, SV(STR, ex.uf('unicode_unescape', z3.StringSort(), z3.StringSort())(ex.coerce(v, STR).z)))
    if nm in ('union_is_str', 'union_str'):
        v = ex.pure(st, e.args[0], cx)
        U = T.union_datatype()
        return k(st, SV(BOOL, U.is_US(v.z)) if nm == 'union_is_str' else SV(STR, U.us(v.z)))
    if nm in ('typeis_union_ref', 'union_is_int', 'union_ref', 'union_int'):
        v = ex.pure(st, e.args[0], cx)
        U = T.union_datatype()
        if nm == 'typeis_union_ref':
            return k(st, SV(BOOL, U.is_UR(v.z)))
        if nm == 'union_is_int':
            return k(st, SV(BOOL, U.is_UI(v.z)))
        if nm == 'union_ref':
            return k(st, SV(T.ref(v.ty.args[0]), U.ur(v.z)))
        return k(st, SV(INT, U.ui(v.z)))
    if nm == 'fld':
        # fld('Class.field'): the heap component of that field, as a math array  ref -> value
        cname, fname = e.args[0].value.split('.')
        ft = ex.field_type(cname, fname)
        key = ex.fkey(fname, ft)
        arr = ex.heap_get(st, key, z3.ArraySort(z3.IntSort(), T.sort_of(ft)))
        return k(st, SV(T.Ty('arr', ft), arr))
    if nm == 'lam':
        # lam(lambda r: expr): the math array  r -> expr
        lam = e.args[0]
        kws = kwmap(e)
        tys = ast.literal_eval(kws['types']) if 'types' in kws else {}
        nm_ = lam.args.args[0].arg
        ty = ex.tenv.parse(tys.get(nm_, 'int'))
        bv = SV(ty, z3.Const(f'{nm_}!lamvar_{T.sort_name(T.sort_of(ty))}', T.sort_of(ty)))
        sub = cx_with_vars(cx, {nm_: bv})
        vars2 = {a: b for a, b in st.vars.items() if a != nm_}
        body = ex.pure(st.copy(vars=vars2), lam.body, sub)
        # a named array constant with its pointwise definition as an (instantiable) axiom; identical bodies share it
        key = body.z.get_id()
        if key not in ex._lam_cache:
            ex.counter += 1
            arr = z3.Const(f'lam!{ex.counter}', z3.ArraySort(T.sort_of(ty), T.sort_of(body.ty)))
            ex._lam_cache[key] = (arr, body.z)
            ex.global_axioms.append(z3.ForAll([bv.z], z3.Select(arr, bv.z) == body.z, patterns=[z3.Select(arr, bv.z)]))
        return k(st, SV(T.Ty('arr', body.ty), ex._lam_cache[key][0]))
    if nm == 'tb_byte':
        u, n_, little, j = [ex.pure(st, x, cx) for x in e.args]
        tb = ex.uf('tb_byte', z3.IntSort(), z3.IntSort(), z3.BoolSort(), z3.IntSort(), z3.IntSort())
        return k(st, SV(INT, tb(u.z, n_.z, ex.truth(st, little), j.z)))
    if nm == 'store':
        a, i, v = [ex.pure(st, x, cx) for x in e.args]
        iz = i.z if T.is_reflike(i.ty) else ex.coerce(i, INT).z
        return k(st, SV(a.ty, z3.Store(a.z, iz, ex.coerce(v, a.ty.args[0]).z)))
    if nm == 'all_bytes':
        a_, lo_, hi_ = [ex.pure(st, x, cx) for x in e.args]
        return k(st, SV(BOOL, ex.bi.all_bytes(a_.z, ex.coerce(lo_, INT).z, ex.coerce(hi_, INT).z)))
    if nm == 'no_bytes':
        # the empty address-to-byte map: -1 (no byte) everywhere
        return k(st, SV(T.Ty('arr', INT), z3.K(z3.IntSort(), z3.IntVal(-1))))
    if nm == 'seq_empty':
        ty = ex.tenv.parse(e.args[0].value)
        return k(st, SV(T.seq(ty), z3.Empty(z3.SeqSort(T.sort_of(ty)))))
    if nm == 'unit':
        v = ex.pure(st, e.args[0], cx)
        return k(st, SV(T.seq(v.ty), z3.Unit(v.z)))
    if nm == 'pow2':
        v = ex.pure(st, e.args[0], cx)
        p = ex.pow2(v.z)
        return k(st, SV(INT, p))
    if nm == 'bitand':
        a, b = ex.pure(st, e.args[0], cx), ex.pure(st, e.args[1], cx)
        return k(st, SV(INT, ex.bi.band(a.z, b.z)))
    if nm == 'bitor':
        a, b = ex.pure(st, e.args[0], cx), ex.pure(st, e.args[1], cx)
        return k(st, SV(INT, ex.bi.bor(a.z, b.z)))
    if nm == 'bitxor':
        a, b = ex.pure(st, e.args[0], cx), ex.pure(st, e.args[1], cx)
        return k(st, SV(INT, ex.bi.bxor(a.z, b.z)))
    if nm == 'some':
        v = ex.pure(st, e.args[0], cx)
        return k(st, ex.coerce(v, T.opt(v.ty)))
    if nm == 'value_of':
        v = ex.pure(st, e.args[0], cx)
        if v.ty.kind == 'opt' and not T.is_reflike(v.ty.args[0]):
            return k(st, SV(v.ty.args[0], T.sort_of(v.ty).val(v.z)))
        if v.ty.kind == 'opt':
            return k(st, SV(v.ty.args[0], v.z))
        return k(st, v)
    return NotImplemented


def cx_with_vars(cx, vars_):
    c = Cx(cx.fi, spec=True, depth=cx.depth, root=cx.root, contract=cx.contract, label=cx.label,
           local_types=cx.local_types)
    c.module = cx.module
    c.cls = cx.cls
    c.spec_vars = dict(cx.spec_vars)
    c.spec_vars.update(vars_)
    return c


def call_spec_function(ex, st, nm, e, cx, k):
    tree, fn, meta = ex.reg.specs[nm]
    scx = cx if cx.spec else cx.as_spec()
    args = [ex.pure(st, a, scx) for a in e.args]
    return k(st, apply_spec(ex, st, nm, args, scx))


def apply_spec(ex, st, nm, args, cx):
    tree, fn, meta = ex.reg.specs[nm]
    params = [a.arg for a in tree.args.args]
    if meta.get('rec'):
        # recursive spec function -> z3 RecFunction over its declared signature (pure value arguments only)
        sig = [ex.tenv.parse(s) for s in meta['sig']]
        if nm not in ex._spec_rec:
            from . import inst
            f = z3.Function('spec_' + nm, *[T.sort_of(t) for t in sig])
            ex._spec_rec[nm] = (f, sig)
            formals = [SV(t, z3.Const(f'{p}!f_{nm}', T.sort_of(t))) for p, t in zip(params, sig[:-1])]
            sub = cx_with_vars(Cx(None, spec=True), dict(zip(params, formals)))
            sub.module = None
            body = spec_body(ex, State(), tree, sub)
            body = ex.coerce(body, sig[-1])
            # uninterpreted symbol + side definition, unfolded explicitly by pyvc.inst at the terms that occur
            inst.define(f, [a.z for a in formals], body.z)
        f, sig = ex._spec_rec[nm]
        zs = [ex.coerce(a, t).z for a, t in zip(args, sig[:-1])]
        return SV(sig[-1], f(*zs))
    if meta.get('uninterpreted'):
        sig = [ex.tenv.parse(s) for s in meta['sig']]
        zs = [ex.coerce(a, t).z for a, t in zip(args, sig[:-1])]
        # the heap components the abstracted computation may read are explicit arguments,
        # so two applications agree only when those components agree
        hz = [ex.heap_get(st, key, srt) for key, srt in heap_read_keys(ex, meta.get('heap_reads', []))]
        sorts = [T.sort_of(t) for t in sig[:-1]] + [h.sort() for h in hz] + [T.sort_of(sig[-1])]
        f = ex.uf('spec_' + nm, *sorts)
        return SV(sig[-1], f(*(zs + hz)))
    sub = cx_with_vars(cx, dict(zip(params, args)))
    # spec functions see the heap of the calling state but only their own parameters
    return spec_body(ex, st.copy(vars={}), tree, sub)


def spec_body(ex, st, tree, cx):
    """A spec function body is a chain of `if c: return e` ... `return e` (or local lets)."""
    def go(stmts, cx):
        s = stmts[0]
        if isinstance(s, ast.Expr) and isinstance(s.value, ast.Constant):
            return go(stmts[1:], cx)
        if isinstance(s, ast.Return):
            return ex.pure(st, s.value, cx)
        if isinstance(s, ast.Assign) and len(s.targets) == 1 and isinstance(s.targets[0], ast.Name):
            v = ex.pure(st, s.value, cx)
            return go(stmts[1:], cx_with_vars(cx, {s.targets[0].id: v}))
        if isinstance(s, ast.If):
            c = ex.truth(st, ex.pure(st, s.test, cx))
            a = go(s.body + stmts[1:], cx)
            b = go((s.orelse or []) + stmts[1:], cx)
            if a.ty != b.ty:
                tt = ex.join(a.ty, b.ty)
                a, b = ex.coerce(a, tt), ex.coerce(b, tt)
            return SV(a.ty, z3.If(c, a.z, b.z))
        raise VCError(f'spec function statement outside subset: {ast.unparse(s)}')
    return go(tree.body, cx)


# ---------------------------------------------------------------------------- repository functions
def bind_args(ex, fi, args, kwargs, cx, st):
    """formal name -> SV, applying defaults."""
    a = fi.node.args
    formals = a.posonlyargs + a.args
    names = [x.arg for x in formals]
    out = {}
    for n, v in zip(names, args):
        out[n] = v
    for n, v in kwargs.items():
        if n not in names:
            raise VCError(f'unknown keyword {n} for {fi.key}')
        out[n] = v
    defaults = a.defaults
    dnames = names[len(names) - len(defaults):]
    for n, d in zip(dnames, defaults):
        if n not in out:
            sub = Cx(fi, spec=cx.spec)
            if isinstance(d, (ast.List, ast.Dict, ast.Call, ast.Set)):
                # mutable default (shared object): modelled as an arbitrary object of the parameter's type
                ann = formals[names.index(n)].annotation
                ty = ex.ann_type(ann)
                if ty is None:
                    raise VCError(f'mutable default of {fi.key}:{n} without usable annotation')
                out[n] = ex.fresh(ty, 'dflt_' + n)
            else:
                out[n] = ex.pure(State(), d, sub)
    missing = [n for n in names if n not in out]
    if missing:
        raise VCError(f'missing arguments {missing} for {fi.key}')
    return out


def param_types(ex, fi, contract):
    """Declared types of formals: sidecar contract first, then the repository's annotations."""
    a = fi.node.args
    out = {}
    for x in a.posonlyargs + a.args:
        ty = None
        if contract is not None and x.arg in contract.params:
            ty = ex.tenv.parse(contract.params[x.arg])
        elif x.arg in ('self',) and fi.cls is not None and fi.kind != 'staticmethod':
            ty = T.ref(fi.cls.name) if not fi.cls.is_enum else T.enum(fi.cls.name)
        elif x.arg == 'cls' and fi.kind == 'classmethod':
            ty = OPAQUE
        else:
            ty = ex.ann_type(x.annotation)
            # `x: T = None` means Optional[T]
            if ty is not None:
                idx = (a.posonlyargs + a.args).index(x)
                nd = len(a.defaults)
                di = idx - (len(a.posonlyargs + a.args) - nd)
                if di >= 0 and isinstance(a.defaults[di], ast.Constant) and a.defaults[di].value is None:
                    ty = T.opt(ty)
        out[x.arg] = ty
    return out


def return_type(ex, fi, contract):
    if contract is not None and contract.returns is not None:
        return ex.tenv.parse(contract.returns)
    return ex.ann_type(fi.node.returns)


def call_function(ex, st, fi, args, kwargs, cx, node, k, contract='auto', receiver_exact=False):
    c = ex.reg.primary(fi.key) if contract == 'auto' else contract
    if c is not None and not (cx.root.fi is fi and cx.depth == 0 and False):
        return call_with_contract(ex, st, fi, c, args, kwargs, cx, node, k)
    return inline_call(ex, st, fi, args, kwargs, cx, node, k)


def inline_call(ex, st, fi, args, kwargs, cx, node, k):
    maxd = cx.root.contract.inline_depth if cx.root.contract is not None else 3
    if cx.depth >= maxd:
        raise VCError(f'inlining depth exceeded at {fi.key} (give it a contract)')
    # recursion guard
    c = cx
    chain = []
    while True:
        chain.append(c.fi.key if c.fi is not None else None)
        if c.root is c or getattr(c, 'parent', None) is None:
            break
        c = c.parent
    if fi.key in chain and fi.kind not in ('getter',):
        raise VCError(f'recursive call to {fi.key} needs a contract')
    ex.inlined.add(fi.key)
    bound = bind_args(ex, fi, args, kwargs, cx, st)
    ptypes = param_types(ex, fi, None)
    vars_ = {}
    for n, v in bound.items():
        pt = ptypes.get(n)
        if pt is not None and v.ty != pt:
            try:
                v = ex.coerce(v, pt, f'argument {n} of {fi.key}')
            except VCError:
                pass  # keep the more precise dynamic view of the argument
        vars_[n] = v
    sub = cx.child(fi)
    sub.parent = cx
    sub.spec = cx.spec
    caller_vars = st.vars
    st2 = st.copy(vars=vars_)
    from .stmts import exec_block
    from .source import strip_docstring
    outs = exec_block(ex, st2, strip_docstring(fi.node.body), sub)
    res = []
    for kind, s, val in outs:
        if kind == 'normal':
            res += k(s.copy(vars=caller_vars), NONE_SV)
        elif kind == 'return':
            res += k(s.copy(vars=caller_vars), val)
        elif kind == 'raise':
            res.append((kind, s.copy(vars=caller_vars), val))
        else:
            raise VCError(f'{kind} escaped function {fi.key}')
    return res


class _Rename(ast.NodeTransformer):
    def __init__(self, mp):
        self.mp = mp

    def visit_Name(self, node):
        if node.id in self.mp:
            return ast.copy_location(ast.Name(id=self.mp[node.id], ctx=node.ctx), node)
        return node


def renamed(ex, cx_spec, tree):
    """a clause of the function under verification is read with the new name of a local that was merely renamed"""
    mp = getattr(ex, 'rename', None)
    if mp and cx_spec is not None and cx_spec.fi is ex.cur_fi:
        return _Rename(mp).visit(tree)
    return tree


def eval_clause(ex, st, clause, cx_spec):
    tree = renamed(ex, cx_spec, ast.parse(clause.strip(), mode='eval').body)
    v = ex.pure(st, tree, cx_spec)
    return ex.truth(st, v)


def contract_cx(ex, fi, contract, root_cx):
    c = Cx(fi, spec=True, depth=0, root=None, contract=contract, label=root_cx.label if root_cx else None)
    return c


def apply_modifies(ex, st, targets, cx_spec, hint='mod'):
    """Havoc the locations named by a modifies list.  Forms:
       'x.f'      field f of the object x             'x.f[*]' / 'x[*]'   content of that list/dict/set
       '*.f:Class' every object's field f (declared in Class)   'alloc' handled by allocates"""
    for t in targets:
        t = t.strip()
        if t.startswith('*.'):
            fname, _, cname = t[2:].partition(':')
            ft = ex.field_type(cname, fname)
            key = ex.fkey(fname, ft)
            sort = z3.ArraySort(z3.IntSort(), T.sort_of(ft))
            st = st.setheap(key, ex.fresh_z(sort, hint + '_' + fname))
            continue
        if t.startswith('all-lists:'):
            lty = ex.tenv.parse(t[len('all-lists:'):])
            n_ = ex.fresh_z(z3.ArraySort(z3.IntSort(), z3.IntSort()), hint + '_lens')
            r_ = z3.Int('r!alen')
            st = st.setheap(ex.lenkey_of(lty), n_).assume(z3.ForAll([r_], z3.Select(n_, r_) >= 0, patterns=[z3.Select(n_, r_)]))
            st = st.setheap(ex.lkey_of(lty), ex.fresh_z(ex.lsort(lty.args[0]), hint + '_arrs'))
            continue
        if t.startswith('heap:'):
            key = t[5:]
            old = ex.heap_get(st, key)
            st = st.setheap(key, ex.fresh_z(old.sort(), hint))
            continue
        if t.startswith('all-dicts:'):
            # the content of every dict of this type
            dk, ds, vk, vs = ex.dkeys(ex.tenv.parse(t[len('all-dicts:'):]))
            st = st.setheap(dk, ex.fresh_z(ds, hint + '_dom')).setheap(vk, ex.fresh_z(vs, hint + '_val'))
            continue
        content = t.endswith('[*]')
        base = t[:-3] if content else t
        tree = renamed(ex, cx_spec, ast.parse(base, mode='eval').body)
        if content:
            obj = ex.pure(st, tree, cx_spec)
            if obj.ty.kind == 'opt':
                obj = SV(obj.ty.args[0], obj.z)
            st = havoc_content(ex, st, obj, hint)
        else:
            if not isinstance(tree, ast.Attribute):
                raise VCError(f'modifies target {t} must be a field or a content x[*]')
            obj = ex.pure(st, tree.value, cx_spec)
            if obj.ty.kind == 'opt':
                obj = SV(obj.ty.args[0], obj.z)
            ft = ex.field_type(obj.ty.args[0], tree.attr)
            key = ex.fkey(tree.attr, ft)
            arr = ex.heap_get(st, key, z3.ArraySort(z3.IntSort(), T.sort_of(ft)))
            nv = ex.fresh(ft, hint + '_' + tree.attr)
            st = st.setheap(key, z3.Store(arr, obj.z, nv.z))
            for fact in ex.type_facts(nv):
                st = st.assume(fact)
    return st


def havoc_content(ex, st, obj, hint):
    t = obj.ty
    if t.kind == 'list':
        n = ex.fresh_z(z3.IntSort(), hint + '_len')
        a = ex.fresh_z(z3.ArraySort(z3.IntSort(), T.sort_of(t.args[0])), hint + '_arr')
        return ex.set_list(st, obj, n, a).assume(n >= 0)
    if t.kind == 'dict':
        dk, ds, vk, vs = ex.dkeys(t)
        ks, vsrt = T.sort_of(t.args[0]), T.sort_of(t.args[1])
        st = st.setheap(dk, z3.Store(ex.heap_get(st, dk, ds), obj.z,
                                     ex.fresh_z(z3.ArraySort(ks, z3.BoolSort()), hint + '_dom')))
        return st.setheap(vk, z3.Store(ex.heap_get(st, vk, vs), obj.z,
                                       ex.fresh_z(z3.ArraySort(ks, vsrt), hint + '_val')))
    if t.kind == 'set':
        k_, srt = ex.skey(t.args[0])
        return st.setheap(k_, z3.Store(ex.heap_get(st, k_, srt), obj.z,
                                       ex.fresh_z(z3.ArraySort(T.sort_of(t.args[0]), z3.BoolSort()), hint + '_set')))
    raise VCError(f'content havoc of {t!r} outside subset')


def call_with_contract(ex, st, fi, c, args, kwargs, cx, node, k):
    if c.assumed:
        ex.assumed_used.add(fi.key)
    bound = bind_args(ex, fi, args, kwargs, cx, st)
    ptypes = param_types(ex, fi, c)
    vars_ = {}
    for n, v in bound.items():
        pt = ptypes.get(n)
        if pt is None:
            raise VCError(f'parameter {n} of {fi.key} has no usable type (contract params=...)')
        vars_[n] = ex.coerce_chk(st, cx, node, v, pt, f'argument {n} of {fi.key}')
    # ghost arguments are existential at call sites: not supported yet
    ccx = Cx(fi, spec=True, contract=c, label=cx.label)
    ccx.root = cx.root
    caller_vars = st.vars
    pre = st.copy(vars=vars_)
    short = fi.key.split(':')[1]
    if not cx.spec:
        waived = (cx.contract.assume_pre or {}).get(short) if cx.contract is not None else None
        for i, r in enumerate(c.requires):
            g = eval_clause(ex, pre, r, ccx)
            if waived is None:
                ex.oblige(pre, ex.site(cx, node, f'call:{short}.requires[{i}]'), g, kind='call-pre',
                          info=dict(clause=r))
            else:
                note = f'precondition of {short} assumed, not proved, at its call in {cx.fi.key.split(":")[1]}: {waived}'
                if note not in ex.notes:
                    ex.notes.append(note)
            pre = pre.assume(g)
    outs = []
    # exceptional outcomes
    conds = []
    for kind, cond in list(c.raises.items()) + list(c.may_raise.items()):
        cz = eval_clause(ex, pre, cond, ccx) if isinstance(cond, str) else z3.BoolVal(bool(cond))
        exact = kind in c.raises
        if exact:
            conds.append(cz)
        if cx.spec:
            continue
        if ex.feasible(pre, cz):
            s_r = pre.assume(cz)
            s_r = post_state(ex, s_r, fi, c, ccx, vars_, raised=kind)
            s_r = s_r.copy(vars=caller_vars)
            if ex.permitted(s_r, kind):
                outs.append(('raise', s_r, kind))
            else:
                ex.oblige(s_r, ex.site(cx, node, f'no-{kind}'), z3.BoolVal(False), kind='absence',
                          info=dict(why=f'{short} may raise {kind}'))
    normal = pre.assume(*[z3.Not(cz) for cz in conds]) if conds else pre
    if conds and not ex.feasible(normal, z3.BoolVal(True)):
        return outs
    s_n = post_state(ex, normal, fi, c, ccx, vars_, raised=None)
    rt = return_type(ex, fi, c)
    res = s_n.vars.get('result', NONE_SV)
    return outs + k(s_n.copy(vars=caller_vars), res)


def post_state(ex, pre, fi, c, ccx, vars_, raised):
    """State after the call according to the contract (pre-state is the `old` snapshot)."""
    st = pre.snap('old')
    st = apply_modifies(ex, st, c.modifies, ccx, hint='m_' + fi.node.name)
    if c.allocates:
        al = ex.heap_get(st, 'alloc', z3.ArraySort(z3.IntSort(), z3.BoolSort()))
        al2 = ex.fresh_z(al.sort(), 'alloc')
        r = z3.Int('r!al')
        st = st.setheap('alloc', al2).assume(z3.ForAll([r], z3.Implies(z3.Select(al, r), z3.Select(al2, r))))
    if raised is None:
        rt = return_type(ex, fi, c)
        if rt is not None and rt.kind != 'none':
            res = ex.fresh(rt, 'res_' + fi.node.name)
            for fact in ex.type_facts(res):
                st = st.assume(fact)
            st = ex.assume_allocated(st, res) if not c.allocates else st
            st = st.setvar('result', res)
        for cl in c.ensures:
            st = st.assume(eval_clause(ex, st, cl, ccx))
        if rt is not None and (rt.kind == 'list' or (rt.kind == 'opt' and rt.args[0].kind == 'list')):
            # a returned list has a length (never negative), whatever heap it lives in after the call
            lv = res if rt.kind == 'list' else SV(rt.args[0], res.z)
            st = st.assume(z3.Implies(res.z != 0, ex.list_len(st, lv) >= 0))
    else:
        for cl in c.ensures_on_raise.get(raised, []):
            st = st.assume(eval_clause(ex, st, cl, ccx))
    # drop the callee's snapshot, restore the caller's
    st = st.copy(snaps=pre.snaps)
    return st


# ---------------------------------------------------------------------------- dynamic dispatch
def dispatch(ex, st, obj, mname, args, kwargs, cx, node, k, getter=False):
    cname = obj.ty.args[0]
    find = ex.repo.find_getter if getter else ex.repo.find_method
    # contract on the static class (or nearest base defining it) stands for every override
    ci, fi = find(cname, mname)
    if fi is not None:
        c = ex.reg.primary(fi.key)
        if c is not None and c.covers_overrides:
            return call_with_contract(ex, st, fi, c, [obj] + args, kwargs, cx, node, k)
    # case split over the dynamic class: each implementation by its own contract (or inlined)
    cands = []
    for sub in sorted(ex.repo.subclasses.get(cname, ())):
        sci, sfi = find(sub, mname)
        if sfi is not None:
            cands.append((sub, sfi))
    if not cands:
        raise VCError(f'method {mname} not found on {cname} or its subclasses')
    groups = {}
    for sub, sfi in cands:
        groups.setdefault(sfi.key, (sfi, []))[1].append(sub)
    if len(groups) > 16:
        raise VCError(f'dynamic dispatch of {cname}.{mname} over {len(groups)} implementations needs a base contract')
    outs = []
    for key, (sfi, subs) in groups.items():
        cond = z3.Or([ex.clsof(obj.z) == ex.repo.class_ids[s] for s in subs])
        if not ex.feasible(st, cond):
            continue
        s2 = st.assume(cond)
        recv = SV(T.ref(sfi.cls.name), obj.z)
        outs += call_function(ex, s2, sfi, [recv] + args, kwargs, cx, node, k)
    return outs


def method_call(ex, st, obj, mname, args, kwargs, cx, node, k):
    t = obj.ty
    if t.kind == 'opt' and t.args[0].kind == 'ref':
        inner = SV(t.args[0], obj.z)
        return ex.guard_raise(st, cx, obj.z == 0, 'AttributeError', node,
                              lambda s: method_call(ex, s, inner, mname, args, kwargs, cx, node, k),
                              why=f'{ast.unparse(node)}: receiver may be None')
    if t.kind == 'opt' and T.is_reflike(t.args[0]):
        obj = SV(t.args[0], obj.z)
        t = obj.ty
    if t.kind == 'opt':
        dt = T.sort_of(t)
        inner = SV(t.args[0], dt.val(obj.z))
        return ex.guard_raise(st, cx, dt.is_none(obj.z), 'AttributeError', node,
                              lambda s: method_call(ex, s, inner, mname, args, kwargs, cx, node, k),
                              why=f'{ast.unparse(node)}: receiver may be None')
    if t.kind == 'union' and t.args:
        U = T.union_datatype()
        inner = SV(T.ref(t.args[0]), U.ur(obj.z))
        return ex.guard_raise(st, cx, z3.Not(ex.isinstance_cond(obj, t.args[0])), 'AttributeError', node,
                              lambda s: method_call(ex, s, inner, mname, args, kwargs, cx, node, k),
                              why='method of a non-object')
    if t.kind == 'ref':
        cname = t.args[0]
        ov = ex.repo.overrides(cname, mname)
        ci, fi = ex.repo.find_method(cname, mname)
        if fi is None and not ov:
            # a method the class does not define itself: if the class derives from dict, it is dict's
            d_ = ex.as_dict_subclass(st, obj)
            if d_ is not None:
                from .methods import builtin_method
                return builtin_method(ex, st, d_, mname, args, kwargs, cx, node, k)
        if ov or fi is None:
            return dispatch(ex, st, obj, mname, args, kwargs, cx, node, k)
        return call_function(ex, st, fi, [obj] + args, kwargs, cx, node, k)
    from .methods import builtin_method
    return builtin_method(ex, st, obj, mname, args, kwargs, cx, node, k)


def construct(ex, st, ci, e, cx, k):
    kws = kwmap(e)
    if ci.is_enum:
        raise VCError('enum construction outside subset')
    if ci.name in BUILTIN_EXC_CLASSES:
        return k(st, SV(OPAQUE, I(0)))

    def f(st, vs):
        s2, r = ex.alloc(st, T.ref(ci.name), ci.name.lower())
        oc, init = ex.repo.find_method(ci.name, '__init__')
        if init is None:
            return k(s2, r)
        return call_function(ex, s2, init, [r] + vs[:len(e.args)], dict(zip(kws.keys(), vs[len(e.args):])),
                             cx, e, lambda s3, _: k(s3, r))
    # an empty list literal passed to the constructor takes its element type from the parameter it is passed for
    args_ = list(e.args)
    if any(isinstance(a, ast.List) and not a.elts for a in args_):
        oc_, init_ = ex.repo.find_method(ci.name, '__init__')
        if init_ is not None:
            c_ = ex.reg.primary(init_.key)
            ptys = param_types(ex, init_, c_) if c_ is not None else {}
            names = init_.params[1:]

            def go(st, i, acc):
                if i == len(args_):
                    return ex.ev_list(st, list(kws.values()), cx, lambda s_, kv: f(s_, acc + kv))
                a = args_[i]
                pt = ptys.get(names[i]) if i < len(names) else None
                if isinstance(a, ast.List) and not a.elts and pt is not None and pt.kind == 'list':
                    from .stmts import new_empty
                    s_, r_ = new_empty(ex, st, pt)
                    return go(s_, i + 1, acc + [r_])
                return ex.ev(st, a, cx, lambda s_, v_: go(s_, i + 1, acc + [v_]))
            return go(st, 0, [])
    return ex.ev_list(st, list(e.args) + list(kws.values()), cx, f)


BUILTIN_EXC_CLASSES = set()


# ---------------------------------------------------------------------------- builtin functions
def builtin_function(ex, st, nm, e, cx, k):
    from .methods import builtin_fn
    return builtin_fn(ex, st, nm, e, cx, k)


def module_function(ex, st, mod, attr, e, cx, k):
    from .methods import module_fn
    return module_fn(ex, st, mod, attr, e, cx, k)


def heap_read_keys(ex, reads):
    out = []
    for r in reads:
        if '[' in r:
            ty = ex.tenv.parse(r)
            if ty.kind == 'dict':
                dk, ds, vk, vs = ex.dkeys(ty)
                out += [(dk, ds), (vk, vs)]
            elif ty.kind == 'list':
                out.append((ex.lkey_of(ty), ex.lsort(ty.args[0])))
                out.append((ex.lenkey_of(ty), z3.ArraySort(z3.IntSort(), z3.IntSort())))
            elif ty.kind == 'set':
                out.append(ex.skey(ty.args[0]))
            else:
                raise VCError(f'heap_reads entry {r}')
        else:
            cname, fname = r.split('.')
            ft = ex.field_type(cname, fname)
            out.append((ex.fkey(fname, ft), z3.ArraySort(z3.IntSort(), T.sort_of(ft))))
    seen = set()
    res = []
    for k_, s_ in out:
        if k_ not in seen:
            seen.add(k_)
            res.append((k_, s_))
    return res
