"""Discharging obligations: z3 in-process first, /usr/bin/cvc5 on the SMT-LIB dump for what z3 leaves unknown."""
import os
import subprocess
import tempfile
import time

import z3

CVC5 = '/usr/bin/cvc5'


def solve(ob, timeout_ms=10000, use_cvc5=True):
    """-> dict(status= 'proved' | 'refuted' | 'unknown', backend=, time=, model=)"""
    t0 = time.time()
    s = z3.Solver()
    s.set('timeout', timeout_ms)
    for a in ob.assumptions:
        s.add(a)
    s.add(z3.Not(ob.goal))
    r = s.check()
    dt = time.time() - t0
    if r == z3.unsat:
        return dict(status='proved', backend='z3', time=dt)
    if r == z3.sat:
        m = s.model()
        return dict(status='refuted', backend='z3', time=dt, model=model_to_dict(m), smt_model=str(m)[:4000])
    reason = s.reason_unknown()
    if use_cvc5 and os.path.exists(CVC5):
        r2 = run_cvc5(s, max(5, timeout_ms // 1000))
        if r2 is not None:
            r2['time'] = time.time() - t0
            return r2
    return dict(status='unknown', backend='z3+cvc5' if use_cvc5 else 'z3', time=time.time() - t0, reason=reason)


def run_cvc5(solver, tlimit_s):
    smt = solver.to_smt2()
    # z3 prints (declare-fun ...) fine for cvc5; strings/seq need the extended signature
    with tempfile.NamedTemporaryFile('w', suffix='.smt2', delete=False) as f:
        f.write('(set-logic ALL)\n' + smt)
        path = f.name
    try:
        p = subprocess.run([CVC5, '--strings-exp', f'--tlimit={tlimit_s * 1000}', path], capture_output=True, text=True,
                           timeout=tlimit_s + 5)
        out = p.stdout.strip().splitlines()
        if out and out[0] == 'unsat':
            return dict(status='proved', backend='cvc5')
        if out and out[0] == 'sat':
            # cvc5 models are not replayed automatically; report as refuted-without-model
            return dict(status='refuted', backend='cvc5', model={}, smt_model='(cvc5 sat)')
        return None
    except Exception:
        return None
    finally:
        os.unlink(path)


def model_to_dict(m):
    out = {}
    for d in m.decls():
        try:
            v = m[d]
            if d.arity() == 0:
                out[d.name()] = str(v)
        except Exception:
            pass
    return out
