"""Discharging obligations.

Pipeline per obligation (conjunctive goals are split first):
  1. explicit instantiation of quantified hypotheses and unfolding of defined functions at the ground terms of the
     query (pyvc.inst), then a quantifier-free z3 check;
  2. if that fails and the obligation names small-range split terms (exponents of 2**k, loop counters), an exhaustive
     case split on those terms with constant folding, each leaf discharged as in 1;
  3. otherwise the full query (quantifiers, definitions as axioms) is given to z3, then /usr/bin/cvc5.
Only `unsat` proves; `sat` of the full query refutes; everything else is `unknown`.
"""
import os
import subprocess
import tempfile
import time

import z3

from . import inst

CVC5 = '/usr/bin/cvc5'
MAX_COMBOS = 40000


class Q:
    """a query: assumptions |- goal"""
    __slots__ = ('assumptions', 'goal')

    def __init__(self, assumptions, goal):
        self.assumptions = tuple(assumptions)
        self.goal = goal



def zcheck(s, budget_ms):
    """s.check() with a wall-clock guard: z3's own `timeout` is not always honoured (a check was seen running for half an
    hour inside preprocessing); after 1.5 x budget + 5 s the context is interrupted and the answer is `unknown`."""
    import threading
    t = threading.Timer(1.5 * budget_ms / 1000.0 + 5.0, s.ctx.interrupt)
    t.daemon = True
    t.start()
    try:
        return s.check()
    except z3.Z3Exception:
        return z3.unknown
    finally:
        t.cancel()


def conjuncts(g):
    if z3.is_and(g):
        out = []
        for c in g.children():
            out += conjuncts(c)
        return out
    return [g]


def flatten(assumptions):
    out = []
    for a in assumptions:
        out += conjuncts(a)
    return out


def skolemize_neg_goal(goal):
    """not(goal) with a universally quantified goal instantiated at fresh constants"""
    if z3.is_quantifier(goal) and goal.is_forall():
        n = goal.num_vars()
        consts = [z3.FreshConst(goal.var_sort(i), 'sk') for i in range(n)]
        body = z3.substitute_vars(goal.body(), *reversed(consts))
        return skolemize_neg_goal(body)
    if z3.is_implies(goal):
        # not (a -> b) == a and not b
        return conjuncts(goal.arg(0)) + skolemize_neg_goal(goal.arg(1))
    return [z3.Not(goal)]


def definition_axioms():
    ax = []
    for name, (decl, formals, body) in inst.DEFS.items():
        ax.append(z3.ForAll(formals, decl(*formals) == body, patterns=[decl(*formals)]))
    return ax


def unit_resolve(A, rounds=3):
    """Unit resolution over the hypotheses: a disjunct that is the negation of another hypothesis is dropped, and a
    disjunction left with one disjunct is flattened -- so that a quantified fact guarded by `x is None or ...` becomes a
    top-level (instantiable) hypothesis once `x is not None` is known.  Equivalence-preserving."""
    def guarded_quantifier(a):
        if not (z3.is_app_of(a, z3.Z3_OP_OR) or z3.is_app_of(a, z3.Z3_OP_IMPLIES)):
            return False
        stack = list(a.children())
        while stack:
            t = stack.pop()
            if z3.is_quantifier(t):
                return True
            if z3.is_app(t) and (z3.is_and(t) or z3.is_or(t) or z3.is_app_of(t, z3.Z3_OP_IMPLIES) or z3.is_not(t)):
                stack.extend(t.children())
        return False
    if not any(guarded_quantifier(a) for a in A):
        return A          # nothing to gain: no quantified fact is hidden behind a guard
    for _ in range(rounds):
        true_ids = {}     # id -> term (the terms are kept alive: z3 reuses the ids of collected ASTs)
        for a in A:
            if not z3.is_quantifier(a):
                sa = z3.simplify(a)
                true_ids[sa.get_id()] = sa
        out = []
        changed = False
        for a in A:
            b = a
            if z3.is_app_of(a, z3.Z3_OP_IMPLIES):
                b = z3.Or(z3.Not(a.arg(0)), a.arg(1))
            if z3.is_app_of(b, z3.Z3_OP_OR):
                keep = []
                for d in b.children():
                    if z3.is_quantifier(d):
                        keep.append(d)
                        continue
                    nd = z3.simplify(z3.Not(d))
                    if nd.get_id() in true_ids:
                        changed = True
                        continue
                    keep.append(d)
                if len(keep) == 1:
                    out += conjuncts(keep[0])
                    changed = True
                    continue
                if len(keep) < b.num_args():
                    out.append(z3.Or(keep) if keep else z3.BoolVal(False))
                    continue
            out.append(a)
        A = out
        if not changed:
            break
    return A


def check_qf(q, timeout_ms):
    """instantiate, then quantifier-free check.  -> 'unsat' | 'sat' | 'unknown', model"""
    A = unit_resolve(flatten(q.assumptions))
    ground = [a for a in A if not z3.is_quantifier(a)]
    quants = [a for a in A if z3.is_quantifier(a)]
    neg = skolemize_neg_goal(q.goal)
    ground = [z3.simplify(g_) for g_ in ground]
    neg = [z3.simplify(g_) for g_ in neg]
    # (instances are folded but not re-simplified: the solver's own preprocessing normalises all assertions alike,
    # whereas simplifying them one by one may hoist if-then-else terms differently in different assertions)
    insts = [fold(i_) for i_ in inst.instantiate(quants, ground + neg)]
    # value table of 2**j as (unfolded) ground facts: an exponent that the arithmetic pins to a numeral then gets its
    # value by congruence
    p2 = None
    for t in inst.subterms(ground + insts + neg):
        if z3.is_app(t) and t.decl().name() == 'pow2' and t.num_args() == 1 and not z3.is_int_value(t.arg(0)):
            p2 = t.decl()
            break
    if p2 is not None:
        insts += [p2(z3.IntVal(j)) == z3.IntVal(2 ** j) for j in range(0, 73)]
    r = z3.unknown
    # small portfolio: the legacy arithmetic core is much quicker on div/mod-by-constant identities
    for opts, share in (({'smt.arith.solver': 2}, 0.4), ({}, 1.0)):
        s = z3.Solver()
        s.set('timeout', max(200, int(timeout_ms * share)))
        s.set('smt.mbqi', False)
        for k_, v_ in opts.items():
            s.set(k_, v_)
        for a in ground + insts + neg:
            s.add(a)
        r = zcheck(s, max(200, int(timeout_ms * share)))
        if r != z3.unknown:
            break
    if os.environ.get('PYVC_DEBUGQF') and r != z3.unsat:
        print('   [qf]', r, 'quants', len(quants), 'insts', len(insts), 'goal', str(q.goal)[:80].replace('\n', ' '))
        for i_ in insts[:40]:
            print('      inst:', str(i_)[:300].replace('\n', ' '))
    if r == z3.unsat:
        return 'unsat', None, bool(quants) or bool(insts)
    if r == z3.sat:
        return 'sat', s.model(), bool(quants) or uses_defs(ground + neg)
    return 'unknown', None, True


def _nnf_split(formulas):
    """negation normal form with skolemisation (z3 tactic `nnf`) -> (ground conjuncts, top-level universal conjuncts)"""
    g = z3.Goal()
    for f in formulas:
        g.add(f)
    res = z3.Tactic('nnf')(g)
    if len(res) != 1:
        raise z3.Z3Exception('nnf produced several goals')
    A = []
    for f in res[0]:
        A += conjuncts(f)
    A = unit_resolve(A)
    return [z3.simplify(a) for a in A if not z3.is_quantifier(a)], [a for a in A if z3.is_quantifier(a)]


def has_alternation(q):
    """an existential anywhere, or a universal that is not a top-level hypothesis / the goal's own prefix: the shapes the
    plain instantiate-and-check cannot use"""
    def nested(t, top):
        stack = [(t, top)]
        seen = 0
        while stack:
            x, is_top = stack.pop()
            seen += 1
            if seen > 20000:
                return False
            if z3.is_quantifier(x):
                if not x.is_forall() or not is_top:
                    return True
                stack.append((x.body(), False))
            elif z3.is_app(x):
                keep = is_top and z3.is_and(x)
                for ch in x.children():
                    stack.append((ch, keep))
        return False
    g = q.goal
    while z3.is_quantifier(g) and g.is_forall():
        g = g.body()
    return nested(g, False) or any(nested(a, True) for a in flatten(q.assumptions))


def check_nnf(q, timeout_ms, rounds=4):
    if not has_alternation(q):
        return 'unknown'
    t_end = time.time() + max(5.0, 3 * timeout_ms / 1000.0)
    """Instantiate-and-check with skolemisation between the rounds: an instance of a lemma whose hypothesis is itself
    universally quantified becomes, in negation normal form, a clause about a fresh skolem constant, for which the next
    round can instantiate the facts that establish the hypothesis."""
    ground, quants = _nnf_split(unit_resolve(flatten(q.assumptions)) + [z3.Not(q.goal)])
    seen = {}
    for _ in range(rounds):
        new = []
        if time.time() > t_end:
            return 'unknown'
        for i_ in inst.instantiate(quants, ground, rounds=1, max_inst=1500):
            f_ = fold(i_)
            if f_.get_id() not in seen:
                seen[f_.get_id()] = f_
                new.append(f_)
        if not new:
            break
        g2, q2 = _nnf_split(new)
        ground += g2
        quants += q2
        if len(ground) > 6000:
            break
    s = z3.Solver()
    s.set('timeout', timeout_ms)
    s.set('smt.mbqi', False)
    for a in ground:
        s.add(a)
    r = zcheck(s, timeout_ms)
    return 'unsat' if r == z3.unsat else ('sat' if r == z3.sat else 'unknown')


def uses_defs(es):
    for t in inst.subterms(es):
        if z3.is_app(t) and t.decl().name() in inst.DEFS:
            return True
    return False


def solve1(q, timeout_ms=10000, use_cvc5=True, full=True):
    t0 = time.time()
    r, m, weakened = check_qf(q, timeout_ms)
    if r == 'unsat':
        return dict(status='proved', backend='z3', time=time.time() - t0)
    if r == 'sat' and not weakened:
        return dict(status='refuted', backend='z3', time=time.time() - t0, model=model_to_dict(m), smt_model=str(m)[:4000],
                    _z3model=m)
    cand = m
    if not full:
        return dict(status='unknown', backend='z3', time=time.time() - t0, reason='instantiated query not unsat',
                    has_candidate=cand is not None)
    # full query
    s = z3.Solver()
    s.set('timeout', timeout_ms)
    for a in q.assumptions:
        s.add(a)
    for a in definition_axioms():
        s.add(a)
    s.add(z3.Not(q.goal))
    r2 = zcheck(s, timeout_ms)
    if r2 == z3.unsat:
        return dict(status='proved', backend='z3', time=time.time() - t0)
    if r2 == z3.sat:
        m2 = s.model()
        return dict(status='refuted', backend='z3', time=time.time() - t0, model=model_to_dict(m2), smt_model=str(m2)[:4000],
                    _z3model=m2)
    # quantifier alternation (an existential under a universal, or in the goal): negation normal form with
    # skolemisation first, then the same instantiate-and-check
    try:
        rn = check_nnf(q, timeout_ms)
    except z3.Z3Exception:
        rn = 'unknown'
    if rn == 'unsat':
        return dict(status='proved', backend='z3 (nnf + instantiation)', time=time.time() - t0)
    if use_cvc5 and os.path.exists(CVC5):
        r3 = run_cvc5(s, max(5, timeout_ms // 1000))
        if r3 is not None and r3['status'] == 'proved':
            r3['time'] = time.time() - t0
            return r3
    if cand is not None:
        # counter-model of the instantiated query: satisfies every ground hypothesis and every generated instance of
        # the quantified ones; the full query could not be refuted or proved.  Reported as refuted (weakened).
        return dict(status='refuted', backend='z3 (instantiated query)', time=time.time() - t0, weakened=True,
                    model=model_to_dict(cand), smt_model=str(cand)[:4000], _z3model=cand)
    return dict(status='unknown', backend='z3+cvc5' if use_cvc5 else 'z3', time=time.time() - t0,
                reason=s.reason_unknown())


def solve_conj(q, timeout_ms=10000, use_cvc5=True, full=True):
    cs = conjuncts(q.goal)
    if len(cs) == 1:
        return solve1(q, timeout_ms, use_cvc5, full)
    t0 = time.time()
    backends = set()
    worst = None
    for c in cs:
        r = solve1(Q(q.assumptions, c), timeout_ms, use_cvc5, full)
        backends.add(r['backend'])
        if r['status'] == 'refuted':
            r['time'] = time.time() - t0
            return r
        if r['status'] == 'unknown':
            worst = r
            break
    if worst is not None:
        worst['time'] = time.time() - t0
        return worst
    return dict(status='proved', backend='+'.join(sorted(backends)), time=time.time() - t0)


# ------------------------------------------------------------------------------------------ case splitting
def hoist_ite(k, depth=4):
    """k with one inner if-then-else lifted to the top: ite(c, k[then], k[else]) (recursively, bounded)"""
    k = z3.simplify(k)
    if depth == 0 or z3.is_int_value(k):
        return k
    found = None
    for t in inst.subterms([k]):
        if z3.is_app_of(t, z3.Z3_OP_ITE) and t.sort() == z3.IntSort():
            found = t
            break
    if found is None:
        return k
    a = hoist_ite(z3.substitute(k, (found, found.arg(1))), depth - 1)
    b = hoist_ite(z3.substitute(k, (found, found.arg(2))), depth - 1)
    return z3.If(found.arg(0), a, b)


def fold(e):
    """constant folding after a substitution: 2**<numeral>, x & <constant mask>, x | <single bit>"""
    cache = {}

    def go(t):
        i = t.get_id()
        if i in cache:
            return cache[i]
        r = t
        if z3.is_app(t) and t.num_args() > 0:
            ch = [go(c) for c in t.children()]
            nm = t.decl().name()
            if nm == 'pow2' and t.num_args() == 1:
                ks = hoist_ite(ch[0])

                def p2(k_):
                    if z3.is_int_value(k_) and 0 <= k_.as_long() <= 72:
                        return z3.IntVal(2 ** k_.as_long())
                    if z3.is_app_of(k_, z3.Z3_OP_ITE):
                        return z3.If(k_.arg(0), p2(k_.arg(1)), p2(k_.arg(2)))
                    return t.decl()(k_)
                r = p2(ks)
            elif nm in ('pdiv', 'pmod', 'pmul') and t.num_args() == 2:
                a, b = ch[0], hoist_ite(ch[1])

                def pd(b_):
                    if z3.is_int_value(b_) and (b_.as_long() > 0 or nm == 'pmul'):
                        return a / b_ if nm == 'pdiv' else (a % b_ if nm == 'pmod' else a * b_)
                    if z3.is_app_of(b_, z3.Z3_OP_ITE):
                        return z3.If(b_.arg(0), pd(b_.arg(1)), pd(b_.arg(2)))
                    return t.decl()(a, b_)
                r = pd(b)
            elif nm == 'band' and t.num_args() == 2:
                a, b = z3.simplify(ch[0]), z3.simplify(ch[1])
                r = t.decl()(a, b)
                for x, m in ((a, b), (b, a)):
                    if z3.is_int_value(m):
                        v = m.as_long()
                        if v >= 0 and (v + 1) & v == 0:
                            r = x % z3.IntVal(v + 1)
                            break
                        if v > 0 and v & (v - 1) == 0:
                            r = ((x / z3.IntVal(v)) % 2) * z3.IntVal(v)
                            break
            elif nm == 'bor' and t.num_args() == 2:
                from .builtins import Builtins
                r = t.decl()(*ch)
                bx = Builtins.bor_exact(None, z3.simplify(ch[0]), z3.simplify(ch[1]))
                if bx is not None:
                    r = bx
            elif any(not a.eq(b) for a, b in zip(ch, t.children())):
                r = t.decl()(*ch)
        cache[i] = r
        return r
    return go(e)


def exponent_atoms(es):
    """integer atoms (constants / selects) occurring inside arguments of pow2(...)"""
    atoms = {}
    for t in inst.subterms(es):
        if z3.is_app(t) and t.decl().name() == 'pow2':
            for u in inst.subterms([t.arg(0)]):
                if u.sort() == z3.IntSort() and z3.is_app(u) and not z3.is_int_value(u):
                    k = u.decl().kind()
                    if (k == z3.Z3_OP_UNINTERPRETED and u.num_args() == 0) or k == z3.Z3_OP_SELECT:
                        atoms[u.get_id()] = u
    return list(atoms.values())


CAND_RANGES = [(-1, 7), (0, 8), (0, 9), (1, 64), (0, 72)]


def find_range(A, t, timeout_ms):
    for lo, hi in CAND_RANGES:
        s = z3.Solver()
        s.set('timeout', min(timeout_ms, 1000))
        s.set('smt.mbqi', False)
        for a in A:
            if not z3.is_quantifier(a):
                s.add(a)
        s.add(z3.Or(t < lo, t > hi))
        if zcheck(s, 1000) == z3.unsat:
            return lo, hi
    return None


def solve_split(q, hints, timeout_ms, use_cvc5, budget):
    """A |- G by exhaustive case split on a small-range integer term (hinted by the contract, or an exponent of 2**k)."""
    A = flatten(q.assumptions)
    cands = [t for t, lo, hi in hints] + exponent_atoms(A + [q.goal])
    hint_rng = {t.get_id(): (lo, hi) for t, lo, hi in hints}
    present = {t.get_id() for t in inst.subterms(A + [q.goal])}
    for t in cands:
        if t.get_id() not in present:
            continue
        rng = None
        if t.get_id() in hint_rng:
            lo, hi = hint_rng[t.get_id()]
            s = z3.Solver()
            s.set('timeout', 1000)
            for a in A:
                if not z3.is_quantifier(a):
                    s.add(a)
            s.add(z3.Or(t < lo, t > hi))
            if zcheck(s, 1000) == z3.unsat:
                rng = (lo, hi)
        if rng is None:
            rng = find_range(A, t, timeout_ms)
        if rng is None:
            continue
        lo, hi = rng
        nq = 0
        for v in range(lo, hi + 1):
            val = z3.IntVal(v)
            A2 = []
            dead = False
            for a in A:
                a2 = z3.simplify(fold(z3.substitute(a, (t, val))))
                if z3.is_false(a2):
                    dead = True
                    break
                if not z3.is_true(a2):
                    A2.append(a2)
            if dead:
                continue
            G2 = z3.simplify(fold(z3.substitute(q.goal, (t, val))))
            if z3.is_true(G2):
                continue
            hints2 = []
            for t3, lo3, hi3 in hints:
                if t3.eq(t):
                    continue
                t4 = z3.simplify(z3.substitute(t3, (t, val)))
                if not z3.is_int_value(t4):
                    hints2.append((t4, lo3, hi3))
            budget[0] -= 1
            if budget[0] < 0:
                return dict(status='unknown', backend='z3', reason='case-split budget exhausted')
            r = solve_any(Q(A2, G2), hints2, timeout_ms, use_cvc5, budget, top=False)
            nq += r.get('queries', 1)
            if r['status'] != 'proved':
                r['case'] = f'{t}={v} ' + r.get('case', '')
                return r
        return dict(status='proved', backend='z3 (case split)', queries=nq)
    return None


def solve_any(q, hints, timeout_ms, use_cvc5, budget, top=True):
    quick = min(timeout_ms, 1500)
    r = solve_conj(q, quick, False, full=False)
    if r['status'] != 'unknown':
        r.setdefault('queries', 1)
        return r
    if top:
        # a second, longer attempt on the unsplit query before resorting to case splits (whose leaves are
        # instantiated separately and may therefore be weaker)
        r = solve_conj(q, min(timeout_ms, 8000), False, full=False)
        if r['status'] == 'proved':
            r.setdefault('queries', 1)
            return r
    r2 = solve_split(q, hints, timeout_ms, use_cvc5, budget)
    if r2 is not None:
        return r2
    r3 = solve_conj(q, timeout_ms, use_cvc5, full=True)
    r3.setdefault('queries', 1)
    if r3['status'] != 'proved' and os.environ.get('PYVC_DUMP'):
        with open(os.environ['PYVC_DUMP'], 'w') as f:
            f.write('A:\n' + '\n'.join(str(a) for a in flatten(q.assumptions)) + '\nG:\n' + str(q.goal) + '\n')
    return r3


def solve(ob, timeout_ms=10000, use_cvc5=True):
    """-> dict(status= 'proved' | 'refuted' | 'unknown', backend=, time=, model=)"""
    t0 = time.time()
    q = Q(ob.assumptions, ob.goal)
    if ob.kind == 'vacuity':
        s = z3.Solver()
        s.set('timeout', timeout_ms)
        for a in ob.assumptions:
            s.add(a)
        r = zcheck(s, timeout_ms)
        st = 'refuted' if r == z3.sat else ('proved' if r == z3.unsat else 'unknown')
        return dict(status=st, backend='z3', time=time.time() - t0)
    r = solve_any(q, list(getattr(ob, 'splits', None) or []), timeout_ms, use_cvc5, [MAX_COMBOS])
    r['time'] = time.time() - t0
    if r.get('queries', 1) > 1 and r['status'] == 'proved':
        r['backend'] = f'z3 (case split x{r["queries"]})'
    return r


def run_cvc5(solver, tlimit_s):
    smt = solver.to_smt2()
    with tempfile.NamedTemporaryFile('w', suffix='.smt2', delete=False) as f:
        f.write('(set-logic ALL)\n' + smt)
        path = f.name
    try:
        p = subprocess.run([CVC5, '--strings-exp', f'--tlimit={tlimit_s * 1000}', path], capture_output=True, text=True,
                           timeout=tlimit_s + 5)
        out = p.stdout.strip().splitlines()
        if out and out[0] == 'unsat':
            return dict(status='proved', backend='cvc5')
        return None
    except Exception:
        return None
    finally:
        os.unlink(path)


def model_to_dict(m):
    out = {}
    if m is None:
        return out
    for d in m.decls():
        try:
            v = m[d]
            if d.arity() == 0:
                out[d.name()] = str(v)
        except Exception:
            pass
    return out
