"""C15 (determinism): mechanical audit of every order-sensitive use of a set on the compile path.

With fixed inputs, the only run-to-run variation CPython allows is the iteration order of sets (string hashing),
id()/hash()-derived values and a handful of environment reads.  The audit re-reads the current source every run and

  * infers which expressions are sets (annotations `set[...]`, set(...) / set displays / set comprehensions, names and
    attributes assigned from those, properties and functions annotated to return a set, the keyword constants);
  * finds every use whose result can depend on iteration order (for-loops and comprehensions over a set, join / list /
    tuple / enumerate / zip / next(iter()) / pop on a set) and every call of hash, id, random.*, time.*, os.environ,
    os.getcwd, os.listdir, glob;
  * accepts a use only if a rule shows it order-insensitive:
        reject-loop      the loop body is only `if <test>: sys.exit(...)`           (same verdict in every order)
        membership-only  a comprehension's result is bound to a name used only in `in` / `not in` tests
        sorted           the set is wrapped in sorted(...)
        message          the value only feeds print / click.echo / sys.exit text
        proved           a pyvc obligation shows the enclosing function's result independent of the enumeration
    Anything else is reported: a definite order-dependent conversion (join/list/tuple/... of a set) as a VIOLATION,
    an unjustified loop as UNDECIDED.
"""
import ast
import os

PROVED_LOOPS = {
    # function key -> iterable source text proved order-independent by a pyvc contract (contracts/c15_determinism.py)
    'bespokeasm.assembler.assembly_file:AssemblyFile._locate_filename': {'include_paths'},
}
NONDET_CALLS = {'hash', 'id'}
NONDET_ATTRS = {('random', None), ('time', None), ('os', 'environ'), ('os', 'getcwd'), ('os', 'listdir'),
                ('glob', None), ('uuid', None), ('secrets', None)}


def is_set_annotation(a):
    if a is None:
        return False
    if isinstance(a, ast.Name):
        return a.id in ('set', 'frozenset')
    if isinstance(a, ast.Subscript) and isinstance(a.value, ast.Name):
        return a.value.id in ('set', 'frozenset', 'Set', 'FrozenSet')
    if isinstance(a, ast.Constant) and isinstance(a.value, str):
        return a.value.startswith('set')
    return False


class Audit:
    def __init__(self, repo):
        self.repo = repo
        self.set_attrs = set()        # attribute names that hold sets (class-wide)
        self.set_props = set()        # property / function names returning sets
        self.set_consts = set()       # module-level names bound to sets
        self.sites = []
        self._collect_global()

    def _collect_global(self):
        for mod, m in self.repo.modules.items():
            for name, val in m['consts'].items():
                if self.expr_is_set(val, set()):
                    self.set_consts.add(name)
        # iterate to a fixpoint: constants built from other set constants (.union chains)
        changed = True
        while changed:
            changed = False
            for mod, m in self.repo.modules.items():
                for name, val in m['consts'].items():
                    if name not in self.set_consts and self.expr_is_set(val, set()):
                        self.set_consts.add(name)
                        changed = True
        for key, fi in self.repo.funcs.items():
            if is_set_annotation(fi.node.returns):
                self.set_props.add(fi.node.name)
        for _ in range(3):
            for key, fi in self.repo.funcs.items():
                local = self.local_sets(fi)
                for n in ast.walk(fi.node):
                    if isinstance(n, (ast.Assign, ast.AnnAssign)):
                        targets = n.targets if isinstance(n, ast.Assign) else [n.target]
                        val = n.value
                        ann = getattr(n, 'annotation', None)
                        for t in targets:
                            if isinstance(t, ast.Attribute) and isinstance(t.value, ast.Name) and t.value.id == 'self':
                                if is_set_annotation(ann) or (val is not None and self.expr_is_set(val, local)):
                                    self.set_attrs.add(t.attr)

    def local_sets(self, fi):
        local = set()
        a = fi.node.args
        for x in a.posonlyargs + a.args + a.kwonlyargs:
            if is_set_annotation(x.annotation):
                local.add(x.arg)
        for _ in range(3):
            for n in ast.walk(fi.node):
                if isinstance(n, ast.Assign) and len(n.targets) == 1 and isinstance(n.targets[0], ast.Name):
                    if self.expr_is_set(n.value, local):
                        local.add(n.targets[0].id)
                if isinstance(n, ast.AnnAssign) and isinstance(n.target, ast.Name):
                    if is_set_annotation(n.annotation) or (n.value is not None and self.expr_is_set(n.value, local)):
                        local.add(n.target.id)
        return local

    def expr_is_set(self, e, local):
        if isinstance(e, (ast.Set, ast.SetComp)):
            return True
        if isinstance(e, ast.Name):
            return e.id in local or e.id in self.set_consts
        if isinstance(e, ast.Attribute):
            return e.attr in self.set_attrs or e.attr in self.set_props
        if isinstance(e, ast.Call):
            f = e.func
            if isinstance(f, ast.Name) and f.id in ('set', 'frozenset'):
                return True
            if isinstance(f, ast.Attribute) and f.attr in ('union', 'intersection', 'difference', 'copy',
                                                           'symmetric_difference') and self.expr_is_set(f.value, local):
                return True
            if isinstance(f, ast.Attribute) and f.attr in self.set_props:
                return True
            if isinstance(f, ast.Name) and f.id in self.set_props:
                return True
        if isinstance(e, ast.BinOp) and isinstance(e.op, (ast.BitOr, ast.BitAnd, ast.Sub, ast.BitXor)):
            return self.expr_is_set(e.left, local) and self.expr_is_set(e.right, local)
        if isinstance(e, ast.IfExp):
            return self.expr_is_set(e.body, local) or self.expr_is_set(e.orelse, local)
        return False

    # ------------------------------------------------------------------------------------------
    def run(self):
        for key, fi in sorted(self.repo.funcs.items()):
            local = self.local_sets(fi)
            parents = {}
            for n in ast.walk(fi.node):
                for ch in ast.iter_child_nodes(n):
                    parents[id(ch)] = n
            for n in ast.walk(fi.node):
                if isinstance(n, ast.For) and self.expr_is_set(n.iter, local):
                    self.site(key, n, 'for', ast.unparse(n.iter), self.judge_for(key, n))
                elif isinstance(n, (ast.ListComp, ast.SetComp, ast.DictComp, ast.GeneratorExp)):
                    for g in n.generators:
                        if self.expr_is_set(g.iter, local):
                            self.site(key, n, 'comprehension', ast.unparse(g.iter), self.judge_comp(fi, n, parents))
                elif isinstance(n, ast.Call):
                    self.judge_call(key, fi, n, local, parents)
                elif isinstance(n, ast.Starred) and self.expr_is_set(n.value, local):
                    # [a, *some_set] / (x, *some_set) / f(*some_set): the set's iteration order becomes positional
                    p = parents.get(id(n))
                    if isinstance(p, ast.Set):
                        self.site(key, n, 'conversion', f'*{ast.unparse(n.value)}', ('ok', 'unpacked into a set display'))
                    elif isinstance(p, ast.Call) and isinstance(p.func, ast.Name) and p.func.id in ('sorted', 'set', 'frozenset',
                                                                                                    'max', 'min'):
                        self.site(key, n, 'conversion', f'*{ast.unparse(n.value)}', ('ok', f'consumed by {p.func.id}()'))
                    else:
                        self.site(key, n, 'conversion', f'*{ast.unparse(n.value)}',
                                  ('violation', 'a set is unpacked into an ordered value'))
                elif isinstance(n, ast.Assign) and isinstance(n.targets[0], (ast.Tuple, ast.List)) \
                        and self.expr_is_set(n.value, local):
                    self.site(key, n, 'conversion', f'unpack {ast.unparse(n.value)}',
                              ('violation', 'a set is unpacked into named positions'))
        # module-level code
        return self.sites

    def site(self, key, node, kind, what, verdict):
        self.sites.append(dict(function=key, kind=kind, expr=what, line=getattr(node, 'lineno', 0),
                               verdict=verdict[0], rule=verdict[1]))

    def judge_for(self, key, n):
        src = ast.unparse(n.iter)
        if src in PROVED_LOOPS.get(key, ()):
            return ('ok', 'proved: pyvc obligation shows the result independent of the enumeration order')
        body = [s for s in n.body if not (isinstance(s, ast.Expr) and isinstance(s.value, ast.Constant))]
        if len(body) == 1 and isinstance(body[0], ast.If) and not body[0].orelse \
                and all(self.is_exit_stmt(s) for s in body[0].body):
            return ('ok', 'reject-loop: the body only exits when a member fails a test')
        return ('undecided', 'loop over a set with no order-independence argument')

    @staticmethod
    def is_exit_stmt(s):
        if isinstance(s, ast.Expr) and isinstance(s.value, ast.Call):
            f = s.value.func
            return isinstance(f, ast.Attribute) and f.attr == 'exit'
        return isinstance(s, ast.Raise)

    def judge_comp(self, fi, n, parents):
        p = parents.get(id(n))
        if isinstance(n, ast.SetComp):
            return ('ok', 'the result is again a set')
        if isinstance(p, ast.Call) and isinstance(p.func, ast.Name) and p.func.id in ('sorted', 'set', 'frozenset', 'any',
                                                                                      'all', 'sum', 'len', 'min', 'max'):
            return ('ok', f'consumed by {p.func.id}(), which is order-insensitive')
        if isinstance(p, ast.Assign) and len(p.targets) == 1 and isinstance(p.targets[0], ast.Name):
            name = p.targets[0].id
            uses = [m for m in ast.walk(fi.node) if isinstance(m, ast.Name) and m.id == name and isinstance(m.ctx, ast.Load)]
            ok = True
            for u in uses:
                q = parents.get(id(u))
                if not (isinstance(q, ast.Compare) and any(isinstance(o, (ast.In, ast.NotIn)) for o in q.ops)
                        and u in q.comparators):
                    ok = False
            if uses and ok:
                return ('ok', 'membership-only: the result is used only in `in` / `not in` tests')
        return ('violation', 'the order of a set reaches an ordered value (list / dict / generator)')

    def judge_call(self, key, fi, n, local, parents):
        f = n.func
        # definite order-dependent conversions of a set
        conv = None
        if isinstance(f, ast.Name) and f.id in ('list', 'tuple', 'enumerate', 'zip', 'iter', 'next', 'reversed') and n.args \
                and self.expr_is_set(n.args[0], local):
            conv = f'{f.id}({ast.unparse(n.args[0])})'
        if isinstance(f, ast.Attribute) and f.attr == 'join' and n.args and self.expr_is_set(n.args[0], local):
            conv = f'join({ast.unparse(n.args[0])})'
        if isinstance(f, ast.Attribute) and f.attr == 'pop' and not n.args and self.expr_is_set(f.value, local):
            conv = f'{ast.unparse(f.value)}.pop()'
        if conv is not None:
            p = parents.get(id(n))
            if isinstance(p, ast.Call) and isinstance(p.func, ast.Name) and p.func.id in ('sorted', 'set', 'frozenset', 'len'):
                self.site(key, n, 'conversion', conv, ('ok', f'consumed by {p.func.id}()'))
            elif self.only_message(n, parents):
                self.site(key, n, 'conversion', conv, ('ok', 'message: feeds diagnostic text only'))
            else:
                self.site(key, n, 'conversion', conv, ('violation', 'a set is turned into an ordered value'))
        # other sources of run-to-run variation
        if isinstance(f, ast.Name) and f.id in NONDET_CALLS:
            fn = fi.node.name
            if fn in ('__hash__', '__eq__', '__repr__', '__str__'):
                return
            self.site(key, n, 'nondeterministic-call', ast.unparse(n)[:60], ('violation', f'{f.id}() varies between runs'))
        if isinstance(f, ast.Attribute) and isinstance(f.value, ast.Name):
            for mod, attr in NONDET_ATTRS:
                if f.value.id == mod and (attr is None or f.attr == attr):
                    self.site(key, n, 'nondeterministic-call', ast.unparse(n)[:60],
                              ('violation', f'{mod}.{f.attr} varies between runs / environments'))

    @staticmethod
    def only_message(n, parents):
        p = parents.get(id(n))
        while p is not None:
            if isinstance(p, ast.JoinedStr):
                return True
            if isinstance(p, ast.Call):
                f = p.func
                if (isinstance(f, ast.Name) and f.id == 'print') or (isinstance(f, ast.Attribute) and f.attr in ('echo', 'exit')):
                    return True
                return False
            if isinstance(p, ast.stmt):
                return False
            p = parents.get(id(p))
        return False


def run_audit(repo):
    a = Audit(repo)
    sites = a.run()
    return sites, dict(set_attributes=sorted(a.set_attrs), set_returning=sorted(a.set_props),
                       set_constants=sorted(a.set_consts))
