"""Closed terms: module-level constants of the repository that a property depends on and that no function computes.

A constant has no inputs: evaluating its defining expression under the repository's interpreter IS the complete check of
the clause (there is nothing to quantify over).  Each clause below is taken from the property statements / the
documentation (docs/assembly-language-syntax.md: the directives, the preprocessor directives, the expression functions),
and is a SUPERSET test, so adding a keyword is not flagged while dropping one is.

usage: PYTHONPATH=<tree>/src /venv/bin/python closed_terms.py <out.json>      prints / writes [{name, clause, holds, value}]
"""
import json
import sys

DIRECTIVES = {'org', 'memzone', 'align', 'fill', 'zero', 'zerountil', 'byte', '2byte', '4byte', '8byte', 'cstr', 'asciiz'}
PREPROCESSOR = {'include', 'require', 'create_memzone', 'define', 'if', 'elif', 'else', 'endif', 'ifdef', 'ifndef',
                'mute', 'unmute', 'emit'}
FUNCTIONS = {'LSB'} | {f'BYTE{i}' for i in range(10)}


def main():
    out = []

    def clause(name, text, fn):
        try:
            holds, value = fn()
        except Exception as ex:  # noqa
            holds, value = False, f'{type(ex).__name__}: {ex}'
        out.append(dict(name=name, clause=text, holds=bool(holds), value=value))

    def kw():
        from bespokeasm.assembler.keywords import ASSEMBLER_KEYWORD_SET
        missing = sorted((DIRECTIVES | PREPROCESSOR | FUNCTIONS) - set(ASSEMBLER_KEYWORD_SET))
        return not missing, dict(missing=missing)

    def fn_set():
        from bespokeasm.assembler.keywords import EXPRESSION_FUNCTIONS_SET
        missing = sorted(FUNCTIONS - set(EXPRESSION_FUNCTIONS_SET))
        return not missing, dict(missing=missing)

    clause('keywords.ASSEMBLER_KEYWORD_SET',
           'every directive, preprocessor directive and expression function name is an assembler keyword', kw)
    clause('keywords.EXPRESSION_FUNCTIONS_SET', 'LSB and BYTE0..BYTE9 are expression function names', fn_set)
    json.dump(out, open(sys.argv[1], 'w'), indent=1)
    for o in out:
        print(o)


if __name__ == '__main__':
    main()
