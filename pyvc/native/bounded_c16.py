"""BOUNDED stand-in for the listing's byte-row helper (C16) -- never counted as proved.

ListingPrettyPrinter._generate_bytecode_line_string builds the rows of the byte column by string concatenation and
length tests; string building of unbounded length is outside what the VC generator reaches.  This script runs the real
helper on every length 0..N and every row width 1..8 (three byte patterns each) and decodes the rows back: the hex
pairs of all rows, in order, must be exactly the bytes, every row but the last must be full, no row may be empty or
wider than the column.  Runs under the repository's interpreter.

usage: bounded_c16.py <max_len> <out.json>
"""
import json
import sys

from bespokeasm.assembler.pretty_printer.listing import ListingPrettyPrinter


def main():
    n_max, out = int(sys.argv[1]), sys.argv[2]
    cases, bad = 0, []
    for n in range(0, n_max + 1):
        for width in range(1, 9):
            for pat in range(3):
                data = bytearray(((i * 37 + 11 * pat + (255 if pat == 2 else 0)) % 256) for i in range(n))
                rows = ListingPrettyPrinter._generate_bytecode_line_string(data, width)
                cases += 1
                flat = []
                ok = True
                for r_i, r in enumerate(rows):
                    toks = r.split()
                    if not toks or len(r) != width * 3 or len(toks) > width:
                        ok = False
                    if r_i < len(rows) - 1 and len(toks) != width:
                        ok = False
                    try:
                        flat += [int(t, 16) for t in toks]
                    except ValueError:
                        ok = False      # something that is not a hex pair stands in the byte column
                if flat != list(data) or (n == 0 and rows):
                    ok = False
                if not ok and len(bad) < 5:
                    bad.append(dict(input=dict(line_bytes=list(data), bytes_per_str=width), got=rows))
    json.dump(dict(cases=cases, disagreements=bad), open(out, 'w'))
    print(f'{cases} cases, {len(bad)} disagreements')
    sys.exit(1 if bad else 0)


if __name__ == '__main__':
    main()
