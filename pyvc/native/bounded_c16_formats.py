"""BOUNDED stand-in for the TEXT RENDERING of the output formats (C16) -- never counted as proved.

The contracts of C16 reason about the token stream each printer writes (address fields, byte fields, line ends) and trust
the reading of the text; the listing's continuation rows, the hex dump and the Intel HEX records are rendered by string
formatting / by the intelhex library and are outside the VC generator.  This script assembles a fixed family of small
programs with the real CLI (data of every length 0..N around the row widths 6 and 16, gaps made by .org, a muted
stretch, a 16- and a 24-bit address space), decodes each of the four formats back into an address-to-byte map the way a
reader would (a listing row that shows an address is read at that address, a row that shows none continues the previous
row) and compares: all four maps must be equal, and every entry must be the byte found at that address of the binary
image.  Runs under the repository's interpreter.

usage: bounded_c16_formats.py <max_len> <out.json>
"""
import json
import os
import re
import subprocess
import sys
import tempfile
from concurrent.futures import ThreadPoolExecutor

CONFIG = """\
description: C16 bounded stand-in ISA
general:
  address_size: {bits}
  endian: little
  min_version: 0.3.0
operand_sets:
  imm8:
    operand_values:
      value:
        type: numeric
        argument:
          size: 8
          byte_align: true
{predefined}instructions:
  nop:
    bytecode:
      value: 0xEA
      size: 8
  ldi:
    bytecode:
      value: 0xA9
      size: 8
    operands:
      count: 1
      operand_sets:
        list:
          - imm8
"""


def programs(n_max):
    out = []
    lens = sorted(set([0, 1, 5, 6, 7, 11, 12, 13, 15, 16, 17, 18, 31, 32, 33]) | {n_max})
    if n_max >= 48:
        lens = list(range(0, n_max + 1))        # thorough tier: every length
    for n in [x for x in lens if x <= n_max]:
        data = ', '.join(str((7 * i + n) % 256) for i in range(n))
        body = f'start:\n    nop\n' + (f'    .byte {data}\n' if n else '') + '    ldi 0x12\n'
        out.append((f'len{n}', 16, body + f'    .org {0x40 + n}\n    .byte 1, 2, 3\n    nop\n'))
    out.append(('fill_rows', 16, '    .fill 16, 0x55\n    .org 0x20\n    .fill 33, 0x66\n    nop\n'))
    out.append(('muted', 16, '    .byte 1, 2\n#mute\n    .fill 9, 7\n    nop\n#unmute\n    .byte 3, 4, 5, 6, 7, 8, 9\n    nop\n'))
    out.append(('wide', 24, '    .org 0x012340\n    .byte 1, 2, 3, 4, 5, 6, 7, 8\n    .org 0x012400\n    .cstr "hello, world"\n    nop\n'))
    # a data block predefined by the ISA configuration (it is memory content like any other)
    out.append(('predefined', 16, '    .org 0x10\n    nop\n    ldi 3\n',
                'predefined:\n  data:\n    - name: buffer\n      address: 0x40\n      value: 0x5a\n      size: 9\n'))
    out.append(('backwards', 16, '    .org 0x80\n    .byte 9, 8, 7, 6, 5, 4, 3\n    .org 0x10\n    .byte 1, 2\n    nop\n'))
    return out


def decode_intel_hex(text):
    m, base = {}, 0
    for line in text.splitlines():
        line = line.strip()
        if not line.startswith(':'):
            continue
        raw = bytes.fromhex(line[1:])
        n, addr, typ = raw[0], (raw[1] << 8) | raw[2], raw[3]
        data = raw[4:4 + n]
        if typ == 0:
            for j, b in enumerate(data):
                m[base + addr + j] = b
        elif typ == 4:
            base = ((data[0] << 8) | data[1]) << 16
        elif typ == 2:
            base = ((data[0] << 8) | data[1]) << 4
    return m


def decode_hex_dump(text):
    m = {}
    for line in text.splitlines():
        mt = re.match(r'^([0-9A-Fa-f]+)\s\s(.*?)\s\s\|', line)
        if not mt:
            continue
        a = int(mt.group(1), 16)
        for j, tok in enumerate(mt.group(2).split()):
            if tok != '--':
                m[a + j] = int(tok, 16)
    return m


def decode_minhex(text):
    m, cur = {}, 0
    for line in text.splitlines():
        line = line.strip()
        if not line:
            continue
        if line.startswith(':'):
            for tok in line[1:].split():
                m[cur] = int(tok, 16)
                cur += 1
        else:
            cur = int(line, 16)
    return m


def decode_listing(text):
    m, cur = {}, None
    for line in text.splitlines():
        f = line.split('|')
        if len(f) < 4:
            continue
        addr, byts = f[1].strip(), f[2].split()
        if not byts or not all(re.fullmatch(r'[0-9a-fA-F]{2}', t) for t in byts):
            continue
        if addr:
            cur = int(addr, 16)
        if cur is None:
            continue
        for t in byts:
            m[cur] = int(t, 16)
            cur += 1
    return m


DECODERS = {'intel_hex': decode_intel_hex, 'hex': decode_hex_dump, 'minhex': decode_minhex, 'listing': decode_listing}


def one(args):
    name, bits, src = args[:3]
    predefined = args[3] if len(args) > 3 else ''
    with tempfile.TemporaryDirectory() as d:
        open(os.path.join(d, 'isa.yaml'), 'w').write(CONFIG.format(bits=bits, predefined=predefined))
        open(os.path.join(d, 'p.asm'), 'w').write(src)
        maps, image = {}, None
        for fmt in DECODERS:
            outp = os.path.join(d, f'out.{fmt}')
            p = subprocess.run([sys.executable, '-m', 'bespokeasm', 'compile', '-c', 'isa.yaml', '-p', '-t', fmt,
                                '--pretty-print-output', outp, '-o', os.path.join(d, 'p.bin'), 'p.asm'],
                               cwd=d, capture_output=True, text=True)
            if p.returncode != 0 or not os.path.exists(outp):
                return dict(program=name, problem=f'assembler failed for format {fmt}', stderr=(p.stderr or p.stdout)[-300:])
            try:
                maps[fmt] = DECODERS[fmt](open(outp).read())
            except Exception as ex:  # noqa
                return dict(program=name, source=src, problem=f'{fmt} output cannot be decoded: {type(ex).__name__}: {ex}')
            image = open(os.path.join(d, 'p.bin'), 'rb').read()
    ref = maps['intel_hex']
    for fmt, m in maps.items():
        if m != ref:
            diff = sorted(set(m.items()) ^ set(ref.items()))[:6]
            return dict(program=name, source=src, problem=f'{fmt} decodes to a different address-to-byte map than intel_hex',
                        first_differences=[(hex(a), b) for a, b in diff])
    for a, b in ref.items():
        if a >= len(image) or image[a] != b:
            return dict(program=name, source=src, problem=f'byte at {a:#x} is {b:#x} in the formats but '
                        f'{"outside" if a >= len(image) else hex(image[a])} in the image')
    if not ref:
        return dict(program=name, problem='nothing decoded')
    return None


def main():
    n_max, out = int(sys.argv[1]), sys.argv[2]
    progs = programs(n_max)
    with ThreadPoolExecutor(8) as ex:
        res = list(ex.map(one, progs))
    bad = [r for r in res if r]
    json.dump(dict(cases=len(progs) * len(DECODERS), programs=len(progs), disagreements=bad[:10]), open(out, 'w'), indent=1)
    print(f'{len(progs)} programs x {len(DECODERS)} formats, {len(bad)} disagreements')
    for b in bad[:5]:
        print('  ', {k: v for k, v in b.items() if k != 'source'})
    return 1 if bad else 0


if __name__ == '__main__':
    sys.exit(main())
