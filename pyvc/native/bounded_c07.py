"""BOUNDED stand-in for the expression *parser* (C07) -- never counted as proved.

The recursive-descent parser works on a token list produced by a regular-expression lexer and builds heap trees with
in-place mutation; it is outside what the VC generator currently reaches.  This script enumerates EVERY token sequence
up to a stated length over a fixed alphabet, evaluates it with the real parse_expression(...).get_value(...), and
compares with a reference evaluator written from the property statement (precedence table, left associativity, exact
rationals, truncation toward zero, two's-complement byte extraction).  Runs under the repository's interpreter.

usage: bounded_c07.py <max_tokens> <out.json>
"""
import itertools
import json
import sys
from fractions import Fraction

ALPHABET = ['1', '2', '7', '10', '+', '-', '*', '/', '%', '<<', '>>', '&', '|', '(', ')', 'LSB(', 'BYTE1(']
LEVELS = [['&', '|', '^'], ['<<', '>>'], ['+', '-'], ['*', '/', '%']]      # loosest first; all left-associative


class Reject(Exception):
    pass


def ref_eval(tokens):
    pos = [0]

    def peek():
        return tokens[pos[0]] if pos[0] < len(tokens) else None

    def take():
        t = peek()
        pos[0] += 1
        return t

    def level(k):
        if k == len(LEVELS):
            return unary()
        left = level(k + 1)
        while peek() in LEVELS[k]:
            op = take()
            right = level(k + 1)
            left = apply(op, left, right)
        return left

    def unary():
        t = peek()
        if t is None:
            raise Reject()
        if t == '-':
            take()
            return -unary()
        if t in ('LSB(', 'BYTE1('):
            take()
            v = level(0)
            if take() != ')':
                raise Reject()
            n = 0 if t == 'LSB(' else 1
            return Fraction((int(v) >> (8 * n)) & 0xFF)
        if t == '(':
            take()
            v = level(0)
            if take() != ')':
                raise Reject()
            return v
        if t.isdigit():
            take()
            return Fraction(int(t))
        raise Reject()

    def apply(op, a, b):
        if op == '+':
            return a + b
        if op == '-':
            return a - b
        if op == '*':
            return a * b
        if op in ('/', '%'):
            if b == 0:
                raise Reject()
            return a / b if op == '/' else a - b * (a / b).__floor__()
        x, y = int(a), int(b)
        if op == '&':
            return Fraction(x & y)
        if op == '|':
            return Fraction(x | y)
        if op == '^':
            return Fraction(x ^ y)
        if y < 0 or y > 4096:
            raise Reject()
        return Fraction(x << y) if op == '<<' else Fraction(x >> y)

    v = level(0)
    if pos[0] != len(tokens):
        raise Reject()
    return int(v)


def real_eval(text):
    from bespokeasm.expression import parse_expression
    from bespokeasm.assembler.line_identifier import LineIdentifier
    try:
        return parse_expression(LineIdentifier(1, 'bounded'), text).get_value(None, LineIdentifier(1, 'bounded'))
    except SystemExit:
        raise Reject()
    except RecursionError:
        raise
    except Exception:  # noqa  (whatever the parser dies of: the text was not given a value)
        raise Reject()


def main():
    n_max = int(sys.argv[1])
    out = sys.argv[2]
    cases = 0
    nontrivial = 0
    bad = []
    for n in range(1, n_max + 1):
        for toks in itertools.product(ALPHABET, repeat=n):
            # adjacent operator characters would lex as one different token: keep the tokens apart
            text = ' '.join(toks).replace('( ', '(')
            cases += 1
            try:
                want = ('ok', ref_eval(list(toks)))
            except Reject:
                want = ('reject', None)
            except RecursionError:
                continue
            try:
                got = ('ok', real_eval(text))
            except Reject:
                got = ('reject', None)
            if want[0] == 'ok' and n >= 3:
                nontrivial += 1
            if want != got:
                bad.append(dict(text=text, expected=want, observed=got))
                if len(bad) >= 50:
                    break
        if len(bad) >= 50:
            break
    # chains `a op b op c` and `a op b op c op d` (5 and 7 tokens): associativity and precedence between every pair /
    # triple of binary operators, whatever the exhaustive length bound above is
    BIN = [op for lv in LEVELS for op in lv]
    chain_cases = 0
    shapes = [(['1', '2', '7', '10'], 3), (['2', '7'], 4)]
    for operands, n_opnd in shapes:
        for vals in itertools.product(operands, repeat=n_opnd):
            for ops in itertools.product(BIN, repeat=n_opnd - 1):
                toks = [vals[0]]
                for o, v in zip(ops, vals[1:]):
                    toks += [o, v]
                chain_cases += 1
                try:
                    want = ('ok', ref_eval(list(toks)))
                except Reject:
                    want = ('reject', None)
                try:
                    got = ('ok', real_eval(' '.join(toks)))
                except Reject:
                    got = ('reject', None)
                if want != got and len(bad) < 50:
                    bad.append(dict(text=' '.join(toks), expected=want, observed=got))
    cases += chain_cases
    # literal notations (decimal, $ / 0x / trailing-H hexadecimal, % / b binary, quoted character): every value of a
    # window in every notation must denote its mathematical value, alone and inside an expression
    lit_cases = 0
    values = list(range(0, 600)) + [2 ** 16 - 1, 2 ** 16, 2 ** 32 + 5, 2 ** 64 - 1]
    for v in values:
        hx = f'{v:X}'
        forms = [str(v), f'${v:x}', f'${v:X}', f'0x{v:x}', f'0x{v:X}', f'%{v:b}', f'b{v:b}']
        forms.append((hx if hx[0].isdigit() else '0' + hx) + 'H')
        for form in forms:
            for text, want in ((form, v), (f'{form}+1', v + 1), (f'2*{form}', 2 * v)):
                lit_cases += 1
                try:
                    got = ('ok', real_eval(text))
                except Reject:
                    got = ('reject', None)
                if got != ('ok', want) and len(bad) < 50:
                    bad.append(dict(text=text, expected=('ok', want), observed=got))
    for code in range(32, 127):
        ch = chr(code)
        if ch in "'\\":
            continue
        lit_cases += 1
        text = f"'{ch}'"
        try:
            got = ('ok', real_eval(text))
        except Reject:
            got = ('reject', None)
        if got != ('ok', code) and len(bad) < 50:
            bad.append(dict(text=text, expected=('ok', code), observed=got))
    cases += lit_cases
    json.dump(dict(cases=cases, literal_cases=lit_cases, operator_chain_cases=chain_cases, wellformed_with_3_or_more_tokens=nontrivial, max_tokens=n_max,
                   alphabet=ALPHABET, disagreements=bad), open(out, 'w'), indent=1)
    print(f'bounded C07 parser check: {cases} token sequences up to length {n_max}, {len(bad)} disagreements')
    for b in bad[:10]:
        print('  ', b)
    return 1 if bad else 0


if __name__ == '__main__':
    sys.exit(main())
