"""Cross-check of proved contracts against CPython (thorough tier; decides nothing, guards the machinery).

The obligations of a contract are proved against pyvc's MODEL of Python.  For the kernels whose inputs are simple values
this script draws random inputs, keeps those that satisfy the contract's precondition, runs the REAL method under the
repository's interpreter and evaluates the contract's own clauses natively on the observed pre/post state (the same
evaluator as the counter-model replay, pyvc/native/replay_run.py).  A clause that fails on a real run although it was
proved means that the model of Python, a trusted axiom or the native reading of a spec function is wrong.

usage: PYTHONPATH=<tree>/src:/verif /venv/bin/python contract_fuzz.py <cases per kernel> <out.json>
"""
import json
import os
import random
import sys

sys.path.insert(0, os.path.dirname(os.path.abspath(__file__)))
sys.path.insert(0, os.path.dirname(os.path.dirname(os.path.dirname(os.path.abspath(__file__)))))      # /verif: contracts, pyvc.registry
import replay_run  # noqa: E402


def packed_bits(rnd):
    nbytes = rnd.randint(1, 6)
    cur_bit = rnd.randint(-1, 7)
    data = [rnd.randint(0, 255) for _ in range(nbytes)]
    # bits at and below the cursor of the current byte are still clear (class invariant pb_ok)
    if cur_bit >= 0:
        data[-1] &= ~((1 << (cur_bit + 1)) - 1) & 0xFF
    width = rnd.choice([1, 2, 3, 4, 7, 8, 9, 12, 15, 16, 17, 24, 31, 32, 33, 48, 63, 64])
    kind = rnd.random()
    if kind < 0.45:
        value = rnd.randint(0, (1 << width) - 1)
    elif kind < 0.8:
        value = rnd.randint(-(1 << (width - 1)), -1)
    else:
        value = rnd.choice([(1 << width), -(1 << (width - 1)) - 1, (1 << width) + rnd.randint(0, 9), -(1 << width)])
    return dict(module='bespokeasm.assembler.bytecode.packed_bits', cls='PackedBits', method='append_bits', kind='method',
                fields={'_bytes': {'bytearray': data}, '_cur_byte_idx': nbytes - 1, '_cur_bit_idx': cur_bit},
                args={'value': value, 'bit_size': width, 'byte_aligned': rnd.random() < 0.3,
                      'endian': rnd.choice(['big', 'little'])},
                key='bespokeasm.assembler.bytecode.packed_bits:PackedBits.append_bits', contract_index=0)


def memzone_setter(rnd):
    start = rnd.randint(0, 300)
    end = start + rnd.randint(0, 300)
    cur = rnd.randint(start, end + 1)
    return dict(module='bespokeasm.assembler.memory_zone', cls='MemoryZone', method='current_address', kind='setter',
                fields={'_address_bits': 16, '_start': start, '_end': end, '_name': 'z', '_current_address': cur},
                args={'value': rnd.randint(start - 3, end + 4)},
                key='bespokeasm.assembler.memory_zone:MemoryZone.current_address.setter', contract_index=0)


def memzone_init(rnd):
    bits = rnd.choice([4, 8, 16])
    return dict(module='bespokeasm.assembler.memory_zone', cls='MemoryZone', method='__init__', kind='method', fields={},
                args={'address_bits': bits, 'start': rnd.randint(0, (1 << bits) + 2), 'end': rnd.randint(0, (1 << bits) + 2),
                      'name': 'z'},
                key='bespokeasm.assembler.memory_zone:MemoryZone.__init__', contract_index=0)


def predefined_data(rnd):
    return dict(module='bespokeasm.assembler.line_object.predefined_data', cls='PredefinedDataLine', method='generate_bytes',
                kind='method', fields={'_bytes': {'bytearray': []}, '_byte_length': rnd.randint(0, 40),
                                       '_byte_value': rnd.choice([0, 1, 255, 256, 0x1234, -1, rnd.randint(-70000, 70000)])},
                args={}, key='bespokeasm.assembler.line_object.predefined_data:PredefinedDataLine.generate_bytes',
                contract_index=CI['PredefinedDataLine.generate_bytes'])


def embedded_string(rnd):
    n = rnd.randint(0, 12)
    vals = [rnd.randint(0, 255) for _ in range(n)]
    if rnd.random() < 0.2 and n:
        vals[rnd.randrange(n)] = rnd.choice([256, 0x1234, -1])        # a character / terminator that is no byte
    return dict(module='bespokeasm.assembler.line_object.emdedded_string', cls='EmbeddedString', method='generate_bytes',
                kind='method', fields={'_bytes': {'bytearray': []}, '_string_bytes': {'list': vals}}, args={},
                key='bespokeasm.assembler.line_object.emdedded_string:EmbeddedString.generate_bytes',
                contract_index=CI['EmbeddedString.generate_bytes'])


CI = {}


def contract_indexes():
    """index of the function-specific (not the shared abstract) contract of a key"""
    import glob
    import importlib
    cdir = os.path.join(os.path.dirname(os.path.dirname(os.path.dirname(os.path.abspath(__file__)))), 'contracts')
    for pth in sorted(glob.glob(os.path.join(cdir, 'c*.py'))):
        importlib.import_module('contracts.' + os.path.basename(pth)[:-3])
    from pyvc.registry import REG
    for key, cs in REG.contracts.items():
        for i, c in enumerate(cs):
            if not (c.name or '').startswith('abs:') and not c.assumed:
                CI.setdefault(key.split(':')[1], i)


KERNELS = {'PackedBits.append_bits': packed_bits, 'MemoryZone.current_address.setter': memzone_setter,
           'MemoryZone.__init__': memzone_init, 'PredefinedDataLine.generate_bytes': predefined_data,
           'EmbeddedString.generate_bytes': embedded_string}


def main():
    n, out = int(sys.argv[1]), sys.argv[2]
    rnd = random.Random(int(os.environ.get('VERIF_SEED', '1')))
    contract_indexes()
    summary, bad = {}, []
    for name, gen in KERNELS.items():
        ran = skipped = 0
        for _ in range(n):
            req = gen(rnd)
            res = replay_run.attempt(req, fresh=False)
            if res is None or res.get('unsupported') or not res.get('precondition_holds'):
                skipped += 1
                continue
            ran += 1
            if res.get('failed') and len(bad) < 20:
                bad.append(dict(kernel=name, request=req, outcome=res.get('outcome'), failed=res['failed']))
        summary[name] = dict(ran=ran, precondition_rejected_or_unsupported=skipped)
    json.dump(dict(cases=sum(v['ran'] for v in summary.values()), kernels=summary, disagreements=bad), open(out, 'w'), indent=1)
    print(json.dumps(summary), f'{len(bad)} disagreements')
    for b in bad[:5]:
        print('  ', b['kernel'], b['request']['args'], b['failed'])
    sys.exit(1 if bad else 0)


if __name__ == '__main__':
    main()
