"""BOUNDED stand-in for the #if / #elif comparison (C08) -- never counted as proved.

IfPreprocessorCondition._evaluate_condition resolves symbols, parses both sides with the expression parser and compares
values of mixed type (int or str); it is only under an ABSTRACT contract in C08 (`comparison_holds`, deterministic in
the symbol table).  This script evaluates the real condition objects on a grid and compares with the statement of the
property: "conditions compare integers when both sides are numeric, a bare expression means not equal to 0".

grid: 6 operators x values -N..N and a few large ones x 4 ways of writing each side (decimal, hexadecimal, a defined symbol,
a parenthesised sum), for #if and #elif, plus the bare form.   usage: bounded_c08.py <N> <out.json>
"""
import json
import operator
import sys

OPS = {'==': operator.eq, '!=': operator.ne, '>': operator.gt, '>=': operator.ge, '<': operator.lt, '<=': operator.le}


def main():
    n, out = int(sys.argv[1]), sys.argv[2]
    from bespokeasm.assembler.line_identifier import LineIdentifier
    from bespokeasm.assembler.preprocessor import Preprocessor
    from bespokeasm.assembler.preprocessor.condition import IfPreprocessorCondition, ElifPreprocessorCondition
    line = LineIdentifier(1, 'bounded')
    values = list(range(-n, n + 1)) + [255, 256, 65535]
    cases, skipped, bad = 0, 0, []

    def forms(v, sym):
        fs = [str(v), sym, f'({v - 1} + 1)']
        if v >= 0:
            fs.append(f'${v:x}')
        return fs

    def run(cls, text, symbols, want):
        nonlocal cases, skipped
        pp = Preprocessor()
        for k, v in symbols.items():
            pp.create_symbol(k, v)
        try:
            cond = cls(text, line)
        except (ValueError, SystemExit):
            skipped += 1
            return
        cases += 1
        try:
            # (an #elif's evaluate() also consults the chain it belongs to; the comparison itself is _evaluate_condition)
            got = cond._evaluate_condition(pp)
        except (SystemExit, Exception) as ex:  # noqa
            got = f'{type(ex).__name__}: {ex}'
        if got is not want and got != want and len(bad) < 20:
            bad.append(dict(directive=text, symbols=symbols, expected=want, observed=got if isinstance(got, bool) else str(got)))

    for a in values:
        for b in values:
            for opname, op in OPS.items():
                for fa in forms(a, 'LHS_SYM'):
                    for fb in forms(b, 'RHS_SYM')[:2 if abs(a) > 2 else 4]:
                        syms = {'LHS_SYM': str(a), 'RHS_SYM': str(b)}
                        run(IfPreprocessorCondition, f'#if {fa} {opname} {fb}', syms, op(a, b))
                if abs(a) <= 2 and abs(b) <= 2:
                    run(ElifPreprocessorCondition, f'#elif {a} {opname} {b}', {}, op(a, b))
        for fa in forms(a, 'LHS_SYM'):
            run(IfPreprocessorCondition, f'#if {fa}', {'LHS_SYM': str(a)}, a != 0)
    json.dump(dict(cases=cases, skipped_not_accepted_by_the_directive_pattern=skipped, disagreements=bad), open(out, 'w'), indent=1)
    print(f'{cases} comparisons ({skipped} forms not accepted by the directive pattern), {len(bad)} disagreements')
    for b_ in bad[:5]:
        print('  ', b_)
    return 1 if bad else 0


if __name__ == '__main__':
    sys.exit(main())
