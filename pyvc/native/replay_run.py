"""Native replay of a counter-model: runs the REAL method on concrete inputs and evaluates the contract's own clauses on
the observed pre- and post-state.  Executed by the repository's interpreter:

    PYTHONPATH=<tree>/src:/verif /venv/bin/python /verif/pyvc/native/replay_run.py <request.json>

request: {module, cls, method, fields: {name: value}, args: {name: value}, contract_module, key, contract_index}
values:  ints, bools, strings, null, {"bytearray": [..]}, {"list": [..]}
prints one JSON line: {outcome, result, post_fields, clauses: [{clause, holds}], raises: [{kind, cond, cond_value, raised}], failed: [...]}

Only contracts whose clauses use the executable part of the spec vocabulary can be replayed (no uninterpreted spec
functions, quantifiers only over integer ranges that are enumerated over a window around the values that occur).
"""
import ast
import copy
import importlib
import json
import sys
import types


def dec(v):
    if isinstance(v, dict) and 'bytearray' in v:
        return bytearray(v['bytearray'])
    if isinstance(v, dict) and 'list' in v:
        return [dec(x) for x in v['list']]
    return v


def enc(v):
    if isinstance(v, (bytearray, bytes)):
        return {'bytearray': list(v)}
    if isinstance(v, list):
        return {'list': [enc(x) for x in v]}
    if isinstance(v, (int, str, bool)) or v is None:
        return v
    return repr(v)


class Unsupported(Exception):
    pass


WINDOW = [256]


def forall(f, types=None, trigger=None):
    import inspect
    n = len(inspect.signature(f).parameters)
    rng = range(-2, WINDOW[0])
    if n == 1:
        return all(f(j) for j in rng)
    if n == 2:
        return all(f(j, k) for j in rng for k in rng)
    raise Unsupported('forall over more than two variables')


def exists(f, types=None, trigger=None):
    import inspect
    n = len(inspect.signature(f).parameters)
    rng = range(-2, WINDOW[0])
    if n == 1:
        return any(f(j) for j in rng)
    raise Unsupported('exists over more than one variable')


class Elems:
    """math view of a list: total, default 0 outside the list (the contracts only read inside)"""
    def __init__(self, xs):
        self.xs = list(xs)

    def __getitem__(self, i):
        return self.xs[i] if 0 <= i < len(self.xs) else 0


VOCAB = dict(
    implies=lambda a, b: (not a) or b,
    iff=lambda a, b: bool(a) == bool(b),
    ite=lambda c, a, b: a if c else b,
    forall=forall, exists=exists,
    elems=lambda x: Elems(x),
    pow2=lambda k: 2 ** k if k >= 0 else 0,
    bitand=lambda a, b: a & b, bitor=lambda a, b: a | b, bitxor=lambda a, b: a ^ b,
    value_of=lambda x: x, some=lambda x: x,
    store=lambda a, i, v: _store(a, i, v),
    typeis=lambda o, c: type(o).__name__ == c,
    isa=lambda o, c: any(k.__name__ == c for k in type(o).__mro__),
    tb_byte=lambda u, n, little, j: (u >> (8 * (j if little else n - 1 - j))) & 0xFF,
    pmod=lambda a, b: a % b,
)


def _store(a, i, v):
    b = Elems(a.xs if isinstance(a, Elems) else a)
    while len(b.xs) <= i:
        b.xs.append(0)
    b.xs[i] = v
    return b


class OldRewriter(ast.NodeTransformer):
    """old(e) / entry(e): evaluated in the pre-state namespace and replaced by a name bound to the value"""
    def __init__(self, pre_ns):
        self.pre_ns = pre_ns
        self.bound = {}

    def visit_Call(self, node):
        if isinstance(node.func, ast.Name) and node.func.id in ('old', 'entry') and len(node.args) == 1:
            val = eval(compile(ast.Expression(node.args[0]), '<old>', 'eval'), self.pre_ns)
            nm = f'__old{len(self.bound)}'
            self.bound[nm] = val
            return ast.copy_location(ast.Name(id=nm, ctx=ast.Load()), node)
        return self.generic_visit(node)


def eval_clause(text, pre_ns, post_ns):
    try:
        return _eval_clause(text, pre_ns, post_ns)
    except NameError as ne:
        raise Unsupported(f'vocabulary not executable natively: {ne}')


def _eval_clause(text, pre_ns, post_ns):
    tree = ast.parse(text, mode='eval')
    rw = OldRewriter(pre_ns)
    tree = ast.fix_missing_locations(rw.visit(tree))
    ns = dict(post_ns)
    ns.update(rw.bound)
    return eval(compile(tree, '<clause>', 'eval'), ns)


def main():
    sys.setrecursionlimit(20000)
    req = json.load(open(sys.argv[1]))
    out = attempt(req, fresh=False)
    if out.get('precondition_holds') is False:
        # the solver's receiver state violates a (quantified) precondition the ground query did not see: keep the
        # solver's ARGUMENTS and take a receiver built by the class's own constructor, if it has a default one
        out2 = attempt(req, fresh=True)
        if out2 is not None and out2.get('precondition_holds'):
            out2['receiver'] = 'default-constructed (the counter-model\'s receiver state did not satisfy the precondition)'
            out = out2
    print(json.dumps(out))


def attempt(req, fresh):
    mod = importlib.import_module(req['module'])
    cls = getattr(mod, req['cls'])
    if fresh:
        try:
            obj = cls()
        except Exception:  # noqa
            return None
    else:
        obj = cls.__new__(cls)
        for k, v in req['fields'].items():
            setattr(obj, k, dec(v))
    args = {k: dec(v) for k, v in req['args'].items()}
    pre_obj = copy.deepcopy(obj)
    pre_args = copy.deepcopy(args)
    sizes = [abs(v) for v in list(args.values()) + list(vars(obj).values()) if isinstance(v, int) and not isinstance(v, bool)]
    lens = [len(v) for v in vars(obj).values() if isinstance(v, (list, bytearray))]
    WINDOW[0] = min(512, max([16] + [n + 12 for n in lens] + [s + 4 for s in sizes if s < 300]))
    # the contract and its spec functions (sidecar module; the spec functions are ordinary Python functions)
    import glob
    import os
    cdir = os.path.join(os.path.dirname(os.path.dirname(os.path.dirname(os.path.abspath(__file__)))), 'contracts')
    for pth in sorted(glob.glob(os.path.join(cdir, 'c*.py'))):       # same order as pyvc.run.load_contracts
        importlib.import_module('contracts.' + os.path.basename(pth)[:-3])
    from pyvc.registry import REG
    c = REG.contracts[req['key']][req['contract_index']]
    spec_ns = dict(VOCAB)
    for name, (tree, fn, meta) in REG.specs.items():
        if meta.get('uninterpreted'):
            def unsup(*a, _n=name, **k):
                raise Unsupported(f'uninterpreted spec function {_n}')
            spec_ns[name] = unsup
        else:
            g = types.FunctionType(fn.__code__, spec_ns, name, fn.__defaults__, fn.__closure__)
            spec_ns[name] = g
    outcome, result = 'return', None
    try:
        if req.get('kind') == 'setter':
            setattr(obj, req['method'], list(args.values())[0])
        else:
            result = getattr(obj, req['method'])(**args)
    except SystemExit:
        outcome = 'raise:SystemExit'
    except Exception as ex:  # noqa
        outcome = 'raise:' + type(ex).__name__
    pre_ns = dict(spec_ns, self=pre_obj, **pre_args)
    post_ns = dict(spec_ns, self=obj, result=result, **pre_args)
    out = dict(outcome=outcome, result=enc(result), pre_fields={k: enc(v) for k, v in vars(pre_obj).items()},
               post_fields={k: enc(v) for k, v in vars(obj).items()},
               clauses=[], raises=[], failed=[])
    try:
        pre_ok = all(eval_clause(r, pre_ns, pre_ns) for r in c.requires)
    except Unsupported as u:
        return dict(unsupported=str(u))
    out['precondition_holds'] = bool(pre_ok)
    try:
        for kind, cond in c.raises.items():
            cv = bool(eval_clause(cond, pre_ns, pre_ns)) if isinstance(cond, str) else bool(cond)
            raised = (outcome == 'raise:' + kind)
            out['raises'].append(dict(kind=kind, cond=cond, cond_value=cv, raised=raised))
            if cv != raised:
                out['failed'].append(f'raises[{kind}]: condition is {cv} but the call ' + ('raised it' if raised else f'ended with {outcome}'))
        if outcome.startswith('raise:') and outcome[6:] not in c.raises and outcome[6:] not in c.may_raise:
            out['failed'].append(f'unexpected exception {outcome[6:]}')
        if outcome == 'return':
            for i, cl in enumerate(c.ensures):
                ok = bool(eval_clause(cl, pre_ns, post_ns))
                out['clauses'].append(dict(clause=cl, holds=ok))
                if not ok:
                    out['failed'].append(f'ensures[{i}]: {cl}')
    except Unsupported as u:
        return dict(unsupported=str(u))
    return out


if __name__ == '__main__':
    main()
