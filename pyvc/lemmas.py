"""Lemma library support.

by='smt'   : the statement is proved by z3 from the definitions alone (no uninterpreted symbol involved).
by='enum'  : every variable has a finite range; the statement is evaluated natively, with CPython's own
             operators standing for bitand/bitor/bitxor/pow2, on the complete domain (a complete proof over
             that finite domain of the fact about CPython the lemma states).
by='axiom' : trusted fact about CPython, validated on random samples each run; reported as assumed.
"""
import ast
import itertools
import random
import time

import z3

NATIVE_ENV = {
    'bitand': lambda a, b: a & b,
    'bitor': lambda a, b: a | b,
    'bitxor': lambda a, b: a ^ b,
    'pow2': lambda k: 2 ** k,
    'implies': lambda a, b: (not a) or b,
    'ite': lambda c, a, b: a if c else b,
    'pmod': lambda a, b: a % b,
    'tb_byte': lambda u, n, little, j: u.to_bytes(n, 'little' if little else 'big')[j],
}


def native_eval(expr, env):
    e = dict(NATIVE_ENV)
    e.update(env)
    return eval(compile(ast.parse(expr.strip(), mode='eval'), '<lemma>', 'eval'), {'__builtins__': {
        'abs': abs, 'min': min, 'max': max, 'len': len, 'range': range, 'all': all, 'any': any}}, e)


def prove_lemma(repo, reg, name, timeout_ms):
    lm = reg.lemmas[name]
    t0 = time.time()
    stmt = ' and '.join(lm.hyps) + ' ==> ' + ' and '.join(lm.concl)
    if lm.by == 'enum':
        ranges = lm.ranges
        names = list(ranges)
        n = 0
        for vals in itertools.product(*[range(lo, hi + 1) for lo, hi in (ranges[x] for x in names)]):
            env = dict(zip(names, vals))
            if all(native_eval(h, env) for h in lm.hyps):
                n += 1
                for c in lm.concl:
                    if not native_eval(c, env):
                        return dict(name=name, status='refuted', backend='enum', time=time.time() - t0,
                                    model=str(env), statement=stmt)
        if n == 0:
            return dict(name=name, status='unknown', backend='enum', time=time.time() - t0, statement=stmt,
                        model='vacuous: no point of the domain satisfies the hypotheses')
        return dict(name=name, status='proved', backend=f'enum({n} cases)', time=time.time() - t0, statement=stmt)
    if lm.by == 'axiom':
        rnd = random.Random(12345)
        names = list(lm.vars)
        ok = 0
        for _ in range(20000):
            env = {}
            for x in names:
                lo, hi = (lm.sample.get(x) or lm.ranges.get(x) or (-2 ** 70, 2 ** 70))
                env[x] = rnd.choice([rnd.randint(lo, hi), rnd.randint(max(lo, -300), min(hi, 300))])
            try:
                if all(native_eval(h, env) for h in lm.hyps):
                    ok += 1
                    for c in lm.concl:
                        if not native_eval(c, env):
                            return dict(name=name, status='refuted', backend='sampling', time=time.time() - t0,
                                        model=str(env), statement=stmt)
            except Exception as e:  # noqa
                return dict(name=name, status='unknown', backend='sampling', time=time.time() - t0,
                            model=f'native evaluation failed: {e!r} at {env}', statement=stmt)
        return dict(name=name, status='proved', backend=f'axiom(validated on {ok} samples, not proved)',
                    time=time.time() - t0, statement=stmt)
    from .engine import Executor
    from .verify import lemma_formula, lemma_body
    from .discharge import Q, solve_conj
    ex = Executor(repo, reg)
    if lm.by == 'induction':
        bound, body = lemma_body(ex, name)
        n = bound[lm.induct].z
        prev = z3.substitute(body, (n, n - 1))
        res = []
        used = [lemma_formula(ex, u) for u in lm.uses]
        for what, hyp in (('base', [n <= 0]), ('step', [n > 0, prev])):
            r = solve_conj(Q(hyp + used, body), timeout_ms, False)
            res.append((what, r['status']))
        if all(r == 'proved' for _, r in res):
            return dict(name=name, status='proved', backend=f'z3 (induction on {lm.induct}: base + step)',
                        time=time.time() - t0, statement=stmt)
        return dict(name=name, status='unknown', backend='z3', time=time.time() - t0, statement=stmt, model=str(res))
    # by smt (optionally once per value of some small-range variables)
    bound, body = lemma_body(ex, name)
    from . import inst as _inst
    if lm.cases:
        import itertools as _it
        from .discharge import fold
        names = list(lm.cases)
        n_ok = 0
        old_rounds = _inst.ROUNDS[0]
        _inst.ROUNDS[0] = lm.rounds
        try:
            for vals in _it.product(*[list(lm.cases[x]) for x in names]):
                b2 = z3.substitute(body, *[(bound[x].z, z3.IntVal(v)) for x, v in zip(names, vals)])
                b2 = z3.simplify(fold(b2))
                if lm.by == 'bv':
                    r = prove_bv(lm, bound, b2, dict(zip(names, vals)), timeout_ms)
                else:
                    r = solve_conj(Q([], b2), timeout_ms, False)
                if r['status'] != 'proved':
                    return dict(name=name, status=r['status'], backend='z3', time=time.time() - t0, statement=stmt,
                                model=f'case {dict(zip(names, vals))}: ' + str(r.get('smt_model') or r.get('reason')))
                n_ok += 1
        finally:
            _inst.ROUNDS[0] = old_rounds
        return dict(name=name, status='proved', backend=f'z3 ({n_ok} cases)', time=time.time() - t0, statement=stmt)
    r = solve_conj(Q([], body), timeout_ms, False)
    return dict(name=name, status=r['status'], backend='z3', time=time.time() - t0, statement=stmt,
                model=r.get('smt_model'))


def prove_bv(lm, bound, body, case, timeout_ms):
    """Pure bounded arithmetic: unfold the defined functions, fold constants, translate to bit-vectors (with an
    explicit no-overflow check) and let the bit-vector solver decide."""
    from . import inst as _inst
    from .int2bv import translate, expand_defs, Fail
    from .discharge import fold
    e = body
    for _ in range(12):
        e2 = z3.simplify(fold(expand_defs(e, _inst.DEFS)))
        if e2.eq(e):
            break
        e = e2
    bounds = {}
    for n, sv in bound.items():
        if n in case:
            continue
        ub = lm.ubounds.get(n) if getattr(lm, 'ubounds', None) else None
        if callable(ub):
            ub = ub(**case)
        if ub is None:
            return dict(status='unknown', backend='bv', reason=f'no upper bound declared for {n}')
        bounds[sv.z.decl().name()] = ub
    try:
        f = translate(e, bounds)
    except Fail as ex_:
        return dict(status='unknown', backend='bv', reason=f'not translatable: {ex_}')
    s = z3.SolverFor('QF_BV')
    s.set('timeout', timeout_ms)
    for n, sv in bound.items():
        if n not in case:
            s.add(z3.ULE(z3.BitVec(sv.z.decl().name() + '!bv', f.sort().size() if False else 192), z3.BitVecVal(bounds[sv.z.decl().name()], 192)))
    s.add(z3.Not(f))
    from .discharge import zcheck
    r = zcheck(s, timeout_ms)
    return dict(status='proved' if r == z3.unsat else ('refuted' if r == z3.sat else 'unknown'), backend='z3-bv',
                smt_model=str(s.model())[:500] if r == z3.sat else None)
