"""Lemma library support.

by='smt'   : the statement is proved by z3 from the definitions alone (no uninterpreted symbol involved).
by='enum'  : every variable has a finite range; the statement is evaluated natively, with CPython's own
             operators standing for bitand/bitor/bitxor/pow2, on the complete domain (a complete proof over
             that finite domain of the fact about CPython the lemma states).
by='axiom' : trusted fact about CPython, validated on random samples each run; reported as assumed.
"""
import ast
import itertools
import random
import time

import z3

NATIVE_ENV = {
    'bitand': lambda a, b: a & b,
    'bitor': lambda a, b: a | b,
    'bitxor': lambda a, b: a ^ b,
    'pow2': lambda k: 2 ** k,
    'implies': lambda a, b: (not a) or b,
    'ite': lambda c, a, b: a if c else b,
    'tb_byte': lambda u, n, little, j: u.to_bytes(n, 'little' if little else 'big')[j],
}


def native_eval(expr, env):
    e = dict(NATIVE_ENV)
    e.update(env)
    return eval(compile(ast.parse(expr.strip(), mode='eval'), '<lemma>', 'eval'), {'__builtins__': {
        'abs': abs, 'min': min, 'max': max, 'len': len, 'range': range, 'all': all, 'any': any}}, e)


def prove_lemma(repo, reg, name, timeout_ms):
    lm = reg.lemmas[name]
    t0 = time.time()
    stmt = ' and '.join(lm.hyps) + ' ==> ' + ' and '.join(lm.concl)
    if lm.by == 'enum':
        ranges = lm.ranges
        names = list(ranges)
        n = 0
        for vals in itertools.product(*[range(lo, hi + 1) for lo, hi in (ranges[x] for x in names)]):
            env = dict(zip(names, vals))
            if all(native_eval(h, env) for h in lm.hyps):
                n += 1
                for c in lm.concl:
                    if not native_eval(c, env):
                        return dict(name=name, status='refuted', backend='enum', time=time.time() - t0,
                                    model=str(env), statement=stmt)
        if n == 0:
            return dict(name=name, status='unknown', backend='enum', time=time.time() - t0, statement=stmt,
                        model='vacuous: no point of the domain satisfies the hypotheses')
        return dict(name=name, status='proved', backend=f'enum({n} cases)', time=time.time() - t0, statement=stmt)
    if lm.by == 'axiom':
        rnd = random.Random(12345)
        names = list(lm.vars)
        ok = 0
        for _ in range(20000):
            env = {}
            for x in names:
                lo, hi = lm.ranges.get(x, (-2 ** 70, 2 ** 70)) if getattr(lm, 'ranges', None) else (-2 ** 70, 2 ** 70)
                env[x] = rnd.choice([rnd.randint(lo, hi), rnd.randint(max(lo, -300), min(hi, 300))])
            try:
                if all(native_eval(h, env) for h in lm.hyps):
                    ok += 1
                    for c in lm.concl:
                        if not native_eval(c, env):
                            return dict(name=name, status='refuted', backend='sampling', time=time.time() - t0,
                                        model=str(env), statement=stmt)
            except Exception as e:  # noqa
                return dict(name=name, status='unknown', backend='sampling', time=time.time() - t0,
                            model=f'native evaluation failed: {e!r} at {env}', statement=stmt)
        return dict(name=name, status='proved', backend=f'axiom(validated on {ok} samples, not proved)',
                    time=time.time() - t0, statement=stmt)
    from .engine import Executor
    from .verify import lemma_formula, lemma_body
    from .discharge import Q, solve_conj
    ex = Executor(repo, reg)
    if lm.by == 'induction':
        bound, body = lemma_body(ex, name)
        n = bound[lm.induct].z
        prev = z3.substitute(body, (n, n - 1))
        res = []
        for what, hyp in (('base', [n <= 0]), ('step', [n > 0, prev])):
            r = solve_conj(Q(hyp, body), timeout_ms, False)
            res.append((what, r['status']))
        if all(r == 'proved' for _, r in res):
            return dict(name=name, status='proved', backend=f'z3 (induction on {lm.induct}: base + step)',
                        time=time.time() - t0, statement=stmt)
        return dict(name=name, status='unknown', backend='z3', time=time.time() - t0, statement=stmt, model=str(res))
    # by smt
    bound, body = lemma_body(ex, name)
    r = solve_conj(Q([], body), timeout_ms, False)
    return dict(name=name, status=r['status'], backend='z3', time=time.time() - t0, statement=stmt,
                model=r.get('smt_model'))
