"""Builtin functions, module functions and methods of builtin types (axiomatic models)."""
import ast

import z3

from . import vtypes as T
from .vtypes import INT, BOOL, STR, NONE, FLOAT, OPAQUE
from .engine import SV, NONE_SV, VCError

I = z3.IntVal


def _is_div_call(node):
    """math.ceil(a / b) / int(a / b): a, b  (b a positive int constant)"""
    if isinstance(node, ast.BinOp) and isinstance(node.op, ast.Div):
        b = node.right
        if isinstance(b, ast.Constant) and isinstance(b.value, int) and b.value > 0:
            return node.left, b.value
    return None


def exact_float_site(ex, st, cx, node, n, what):
    """n / 2**j is exact in binary floating point for |n| < 2**53; that bound is an obligation here."""
    ex.oblige(st, ex.site(cx, node, 'float-exact'), z3.And(n > -(2 ** 53), n < 2 ** 53), kind='absence',
              info=dict(why=f'{what}: operand must be exactly representable as a double'))


def builtin_fn(ex, st, nm, e, cx, k):
    args = e.args
    kws = {kw.arg: kw.value for kw in e.keywords}
    if nm == 'sum' and len(args) == 1 and isinstance(args[0], ast.GeneratorExp):
        return sum_genexp(ex, st, e, cx, k)
    if nm == 'len':
        def f(st, v):
            t = v.ty
            if t.kind == 'opt' and T.is_reflike(t.args[0]):
                v = SV(t.args[0], v.z)
                t = v.ty
            if t.kind == 'list':
                return k(st, SV(INT, ex.list_len(st, v)))
            if t.kind == 'opt' and t.args[0].kind == 'str' and not cx.spec:
                # len(None) raises TypeError
                dt_ = T.sort_of(t)
                return ex.guard_raise(st, cx, z3.Not(dt_.is_some(v.z)), 'TypeError', e,
                                      lambda s_: k(s_, SV(INT, z3.Length(dt_.val(v.z)))), why='len(None)')
            if t.kind == 'opt' and t.args[0].kind == 'str' and cx.spec:
                # in a contract clause: the length of the string it holds (unspecified for None; clauses guard with `is not None`)
                return k(st, SV(INT, z3.Length(T.sort_of(t).val(v.z))))
            if t.kind in ('seq', 'str'):
                return k(st, SV(INT, z3.Length(v.z)))
            if t.kind == 'cfg':
                return k(st, SV(INT, ex.uf('cfg_len', z3.IntSort(), z3.IntSort())(v.z)))
            if t.kind == 'set':
                # only emptiness is characterised:  len(s) >= 0  and  len(s) == 0  iff  s has no member
                n_ = ex.fresh_z(z3.IntSort(), 'setlen')
                x_ = z3.Const('x!sl', T.sort_of(t.args[0]))
                members = ex.set_content(st, v)
                st = st.assume(n_ >= 0, (n_ == 0) == z3.ForAll([x_], z3.Not(z3.Select(members, x_)),
                                                                patterns=[z3.Select(members, x_)]))
                return k(st, SV(INT, n_))
            if t.kind in ('dict', 'mset'):
                raise VCError('len of dict outside subset')
            raise VCError(f'len of {t!r} outside subset')
        return ex.ev(st, args[0], cx, f)
    if nm == 'isinstance':
        def f(st, v):
            cl = args[1]
            names = [c.id for c in cl.elts] if isinstance(cl, ast.Tuple) else [cl.id if isinstance(cl, ast.Name) else cl.attr]
            return k(st, SV(BOOL, z3.Or([ex.isinstance_cond(v, n) for n in names])))
        return ex.ev(st, args[0], cx, f)
    if nm == 'int':
        if len(args) == 1:
            d = _is_div_call(args[0])
            if d is not None:
                def f(st, a):
                    n = ex.coerce(a, INT).z
                    if not cx.spec:
                        exact_float_site(ex, st, cx, e, n, ast.unparse(e))
                    q = z3.If(n >= 0, n / I(d[1]), -((-n) / I(d[1])))
                    return k(st, SV(INT, q))
                return ex.ev(st, d[0], cx, f)

            def f(st, v):
                if v.ty.kind in ('int', 'bool'):
                    return k(st, ex.coerce(v, INT))
                if v.ty.kind == 'float':
                    # truncation toward zero
                    fl = z3.ToInt(v.z)
                    return k(st, SV(INT, z3.If(v.z >= 0, fl, -z3.ToInt(-v.z))))
                if v.ty.kind == 'str':
                    f_ = ex.uf('int_of_str', z3.StringSort(), z3.IntSort())
                    ok = ex.uf('is_decimal_str', z3.StringSort(), z3.BoolSort())
                    return ex.guard_raise(st, cx, z3.Not(ok(v.z)), 'ValueError', e,
                                          lambda s: k(s, SV(INT, f_(v.z))), why='int(str)')
                raise VCError(f'int() of {v.ty!r} outside subset')
            return ex.ev(st, args[0], cx, f)
        if len(args) == 2:
            def f(st, vs):
                s_, b = vs
                if s_.ty.kind != 'str':
                    try:
                        s_ = ex.coerce(s_, STR)
                    except Exception:  # noqa
                        raise VCError(f'int(x, base) of {s_.ty!r} outside subset')
                bs = z3.simplify(b.z)
                if not z3.is_int_value(bs):
                    raise VCError('int(s, base) with symbolic base')
                base = bs.as_long()
                f_ = ex.uf(f'int_base{base}', z3.StringSort(), z3.IntSort())
                ok = ex.uf(f'is_base{base}_str', z3.StringSort(), z3.BoolSort())
                return ex.guard_raise(st, cx, z3.Not(ok(s_.z)), 'ValueError', e,
                                      lambda s: k(s, SV(INT, f_(s_.z))), why='int(str, base)')
            return ex.ev_list(st, args, cx, f)
    if nm == 'Fraction' and len(args) == 1:
        # fractions.Fraction(x): the exact rational x
        return ex.ev(st, args[0], cx, lambda s, v: k(s, ex.coerce(v, FLOAT)))
    if nm == 'float':
        return ex.ev(st, args[0], cx, lambda s, v: k(s, ex.coerce(v, FLOAT)))
    if nm == 'bool':
        return ex.ev(st, args[0], cx, lambda s, v: k(s, SV(BOOL, ex.truth(s, v))))
    if nm == 'str':
        def fstr(s, v):
            if v.ty.kind == 'str':
                return k(s, v)
            if v.ty.kind == 'cfg':
                return k(s, ex.coerce(v, STR))
            return k(s, ex.fresh(STR, 'str'))
        return ex.ev(st, args[0], cx, fstr)
    if nm == 'hex':
        return ex.ev(st, args[0], cx, lambda s, v: k(s, ex.fresh(STR, 'hex')))
    if nm == 'ord':
        def f(st, v):
            o = ex.uf('ord', z3.StringSort(), z3.IntSort())
            if v.ty.kind == 'opt' and v.ty.args[0].kind == 'str':
                # ord(None) is a TypeError
                dt_ = T.sort_of(v.ty)
                return ex.guard_raise(st, cx, dt_.is_none(v.z), 'TypeError', e,
                                      lambda s_: k(s_, SV(INT, o(dt_.val(v.z)))), why='ord(None)')
            if v.ty.kind != 'str':
                raise VCError(f'ord() of {v.ty!r} outside subset')
            return k(st, SV(INT, o(v.z)))
        return ex.ev(st, args[0], cx, f)
    if nm in ('abs',):
        def f(st, v):
            z = ex.coerce(v, INT).z
            return k(st, SV(INT, z3.If(z >= 0, z, -z)))
        return ex.ev(st, args[0], cx, f)
    if nm == 'max' and len(args) == 1 and 'default' in kws and isinstance(args[0], ast.Call) \
            and isinstance(args[0].func, ast.Attribute) and args[0].func.attr == 'keys':
        # max(d.keys(), default=x): the largest key, or x for an empty dict
        def f(st, vs):
            d, dflt = vs
            if d.ty.kind != 'dict' or d.ty.args[0].kind != 'int':
                raise VCError('max over keys of a non-int-keyed dict')
            dom = ex.dict_dom(st, d)
            m = ex.fresh(INT, 'maxkey')
            kq = z3.Int('k!max')
            empty = z3.ForAll([kq], z3.Not(z3.Select(dom, kq)), patterns=[z3.Select(dom, kq)])
            ismax = z3.And(z3.Select(dom, m.z), z3.ForAll([kq], z3.Implies(z3.Select(dom, kq), kq <= m.z),
                                                          patterns=[z3.Select(dom, kq)]))
            outs = []
            outs += k(st.assume(empty), ex.coerce(dflt, INT))
            outs += k(st.assume(ismax), m)
            return outs
        return ex.ev_list(st, [args[0].func.value, kws['default']], cx, f)
    if nm in ('max', 'min') and len(args) >= 2:
        def f(st, vs):
            zs = [ex.coerce(v, INT).z for v in vs]
            if cx.spec:
                r = zs[0]
                for z in zs[1:]:
                    r = z3.If(z > r, z, r) if nm == 'max' else z3.If(z < r, z, r)
                return k(st, SV(INT, r))
            # in code: a named value with its defining constraints (keeps if-then-else out of later terms)
            m = ex.fresh(INT, nm)
            bound = [(m.z >= z if nm == 'max' else m.z <= z) for z in zs]
            return k(st.assume(z3.And(bound), z3.Or([m.z == z for z in zs])), m)
        return ex.ev_list(st, args, cx, f)
    if nm == 'bytearray':
        if not args:
            s2, r = ex.new_list(st, T.BYTEARRAY, I(0), ex.empty_arr(INT), 'ba')
            return k(s2, r)

        def f(st, v):
            if v.ty.kind in ('int', 'bool'):
                n = ex.coerce(v, INT).z
                return ex.guard_raise(st, cx, n < 0, 'ValueError', e,
                                      lambda s: (lambda sr: k(sr[0], sr[1]))(ex.new_list(s, T.BYTEARRAY, n, ex.empty_arr(INT), 'ba')),
                                      why='bytearray(negative)')
            if v.ty.kind == 'list':
                # bytearray(list of ints): every element must be in range(256)
                n = ex.list_len(st, v)
                arr = ex.list_arr(st, v)
                j = z3.Int('j!bb')
                bad = z3.Exists([j], z3.And(j >= 0, j < n, z3.Or(z3.Select(arr, j) < 0, z3.Select(arr, j) > 255)))
                return ex.guard_raise(st, cx, bad, 'ValueError', e,
                                      lambda s: (lambda sr: k(sr[0], sr[1]))(ex.new_list(s, T.BYTEARRAY, n, arr, 'ba')),
                                      why='byte must be in range(0, 256)')
            if v.ty.kind == 'seq':
                j = z3.Int('j!bs')
                s2, r = ex.new_list(st, T.BYTEARRAY, z3.Length(v.z), z3.Lambda([j], v.z[j]), 'ba')
                return k(s2, r)
            raise VCError(f'bytearray({v.ty!r}) outside subset')
        return ex.ev(st, args[0], cx, f)
    if nm == 'list':
        if not args:
            raise VCError('list() needs a declared element type')

        def f(st, v):
            if v.ty.kind == 'list':
                s2, r = ex.new_list(st, v.ty, ex.list_len(st, v), ex.list_arr(st, v))
                return k(s2, r)
            if v.ty.kind == 'str':
                # list(s): the characters of s, one string of length 1 each
                j_ = z3.Int('j!chars')
                s2, r = ex.new_list(st, T.lst(STR), z3.Length(v.z), z3.Lambda([j_], z3.SubString(v.z, j_, 1)), 'chars')
                return k(s2, r)
            raise VCError(f'list({v.ty!r}) outside subset')
        return ex.ev(st, args[0], cx, f)
    if nm == 'print':
        return k(st, NONE_SV)
    if nm in ('all', 'any') and len(args) == 1:
        def fall(st, v):
            t = v.ty
            if t.kind == 'opt' and T.is_reflike(t.args[0]):
                v = SV(t.args[0], v.z)
                t = v.ty
            if t.kind != 'list' or t.args[0].kind != 'bool':
                raise VCError(f'{nm}() of {t!r} outside subset')
            n_, at_ = ex.seq_view(st, v)
            j_ = z3.Int(f'j!{nm}')
            if nm == 'all':
                return k(st, SV(BOOL, z3.ForAll([j_], z3.Implies(z3.And(j_ >= 0, j_ < n_), at_(j_)), patterns=[at_(j_)])))
            return k(st, SV(BOOL, z3.Exists([j_], z3.And(j_ >= 0, j_ < n_, at_(j_)))))
        return ex.ev(st, args[0], cx, fall)
    if nm == 'tuple' and len(args) == 1:
        return ex.ev(st, args[0], cx, lambda s, v: k(s, v))      # only ever consumed by str.startswith
    if nm == 'int.from_bytes':
        def f(st, vs):
            b, order = vs[0], vs[1]
            if b.ty.kind == 'list':
                fb = ex.uf('from_bytes_arr', z3.ArraySort(z3.IntSort(), z3.IntSort()), z3.IntSort(), z3.StringSort(), z3.IntSort())
                return k(st, SV(INT, fb(ex.list_arr(st, b), ex.list_len(st, b), order.z)))
            fb = ex.uf('from_bytes', z3.SeqSort(z3.IntSort()), z3.StringSort(), z3.IntSort())
            return k(st, SV(INT, fb(b.z, order.z)))
        return ex.ev_list(st, list(args) + [kws[x] for x in ('byteorder',) if x in kws], cx, f)
    if nm in ('range', 'enumerate', 'zip', 'reversed', 'sorted', 'set', 'dict', 'tuple', 'sum', 'any', 'all',
              'open', 'reduce', 'super', 'type', 'getattr', 'hash', 'id', 'iter', 'next', 'map', 'filter'):
        raise VCError(f'builtin {nm}() outside subset in this position: {ast.unparse(e)}')
    if nm in ('ValueError', 'KeyError', 'IndexError', 'OverflowError', 'SyntaxError', 'NotImplementedError',
              'TypeError', 'Exception', 'SystemExit', 'RuntimeError'):
        # exception object construction (arguments are messages)
        return k(st, SV(OPAQUE, I(0)))
    raise VCError(f'unknown function {nm}: {ast.unparse(e)}')


SIO_ROW, SIO_NL, SIO_TEXT, SIO_ADDR0 = -1, -2, -3, -16


def sio_write(ex, st, obj, e, cx, k):
    """output.write(<text>) on an io.StringIO.  The text is recorded as one TOKEN (an int) chosen by the shape of the
    argument expression -- this is the (trusted) reading of the printers' output formats:
        ':'                                   ->  -1          start of a data row
        '\\n'                                  ->  -2          end of line
        f'{b:02x} ' (one int, two hex digits) ->  b           a byte value 0..255 (any other value: -3)
        '<fmt>'.format(a, ...) / .format(addr=a, ...) with a an int
                                              ->  -16 - a     an address field
        anything else                         ->  -3          text without meaning for the address-to-byte map
    """
    arg = e.args[0]
    n, arr = ex.list_len(st, obj), ex.list_arr(st, obj)

    def push(s, code):
        return k(ex.set_list(s, obj, n + 1, z3.Store(arr, n, code)), NONE_SV)
    if isinstance(arg, ast.Constant) and isinstance(arg.value, str):
        return push(st, I({':': SIO_ROW, '\n': SIO_NL}.get(arg.value, SIO_TEXT)))
    if isinstance(arg, ast.JoinedStr):
        fvs = [v for v in arg.values if isinstance(v, ast.FormattedValue)]
        consts = [v.value for v in arg.values if isinstance(v, ast.Constant)]
        if len(fvs) == 1 and consts == [' '] and isinstance(fvs[0].format_spec, ast.JoinedStr) \
                and len(fvs[0].format_spec.values) == 1 and isinstance(fvs[0].format_spec.values[0], ast.Constant) \
                and fvs[0].format_spec.values[0].value == '02x':
            def fb(s, v):
                if v.ty.kind != 'int':
                    return push(s, I(SIO_TEXT))
                return push(s, z3.If(z3.And(v.z >= 0, v.z <= 255), v.z, I(SIO_TEXT)))
            return ex.ev(st, fvs[0].value, cx, fb)
        return ex.ev(st, arg, cx, lambda s, v: push(s, I(SIO_TEXT)))
    if isinstance(arg, ast.Call) and isinstance(arg.func, ast.Attribute) and arg.func.attr == 'format':
        kws = {kw.arg: kw.value for kw in arg.keywords}
        a_ = kws.get('addr', arg.args[0] if arg.args else None)
        if a_ is not None:
            def fa(s, v):
                if v.ty.kind == 'opt' and v.ty.args[0].kind == 'int':
                    dt = T.sort_of(v.ty)
                    return ex.guard_raise(s, cx, z3.Not(dt.is_some(v.z)), 'TypeError', e,
                                          lambda s2: push(s2, I(SIO_ADDR0) - dt.val(v.z)), why='format of None as hex')
                if v.ty.kind != 'int':
                    return push(s, I(SIO_TEXT))
                return push(s, I(SIO_ADDR0) - v.z)
            return ex.ev(st, a_, cx, fa)
    return ex.ev(st, arg, cx, lambda s, v: push(s, I(SIO_TEXT)))


def sio_puts(ex, st, obj, e, cx, k):
    """IntelHex.puts(addr, data) (external library, trusted): data[j] is stored at addr + j, everything else is kept.
    The IntelHex object is modelled by the address-to-byte map it holds (the array of its list model; the length is
    not used).  `data` must be the latin-1 text of a line's bytes (<bytearray>.decode(...))."""
    if len(e.args) != 2:
        raise VCError(f'puts: {ast.unparse(e)}')

    def with_args(st, vs):
        a, b = vs
        if b.ty not in (T.BYTEARRAY, T.BYTES):
            raise VCError(f'puts: data is not the bytes of a line: {ast.unparse(e)}')
        n, arr = ex.list_len(st, obj), ex.list_arr(st, obj)
        bn, barr = ex.list_len(st, b), ex.list_arr(st, b)

        def cont(s, az):
            ex.counter += 1
            new = z3.Const(f'puts!{ex.counter}', arr.sort())
            x = z3.Int('x!puts')
            s = s.assume(z3.ForAll([x], z3.Select(new, x) == z3.If(z3.And(az <= x, x < az + bn), ex.select(barr, x - az),
                                                                  z3.Select(arr, x)), patterns=[z3.Select(new, x)]))
            return k(ex.set_list(s, obj, n, new), NONE_SV)
        if a.ty.kind == 'opt' and a.ty.args[0].kind == 'int':
            dt = T.sort_of(a.ty)
            return ex.guard_raise(st, cx, z3.Not(dt.is_some(a.z)), 'TypeError', e, lambda s2: cont(s2, dt.val(a.z)),
                                  why='puts at address None')
        return cont(st, ex.coerce(a, INT).z)
    return ex.ev_list(st, [e.args[0], e.args[1]], cx, with_args)


def sum_genexp(ex, st, e, cx, k):
    """sum(<elt> for <v> in <iterable>) is the left fold of + from 0 (Python's definition): executed as the loop
           _sumN = 0
           for <v> in <iterable>: _sumN = _sumN + <elt>
    whose invariant the sidecar contract gives under the loop ordinal 'sumN' (N-th such call of the function in source
    order).  The generator's target stays bound afterwards (it does not in Python; nothing in the subset reads it)."""
    from .stmts import exec_block, loop_spec
    g = e.args[0]
    if len(g.generators) != 1 or g.generators[0].ifs or g.generators[0].is_async:
        raise VCError(f'sum() of a filtered / nested generator outside subset: {ast.unparse(e)}')
    gen = g.generators[0]
    fi = cx.fi
    sums = [n for n in ast.walk(fi.node) if isinstance(n, ast.Call) and isinstance(n.func, ast.Name) and n.func.id == 'sum'
            and len(n.args) == 1 and isinstance(n.args[0], ast.GeneratorExp)]
    sums.sort(key=lambda n: (n.lineno, n.col_offset))
    o = 'sum%d' % [id(n) for n in sums].index(id(e))
    acc = '_' + o
    init = ast.Assign(targets=[ast.Name(id=acc, ctx=ast.Store())], value=ast.Constant(value=0))
    step = ast.Assign(targets=[ast.Name(id=acc, ctx=ast.Store())],
                      value=ast.BinOp(left=ast.Name(id=acc, ctx=ast.Load()), op=ast.Add(), right=g.elt))
    loop = ast.For(target=gen.target, iter=gen.iter, body=[step], orelse=[])
    for n in (init, step, loop):
        ast.copy_location(n, e)
        ast.fix_missing_locations(n)
    loop_spec(ex, cx, loop)                      # makes sure the ordinal table of this function exists
    ex._loop_ords[id(fi.node)][id(loop)] = o
    out = []
    for kind, s2, p in exec_block(ex, st, [init, loop], cx):
        if kind == 'normal':
            out += k(s2, s2.vars[acc])
        else:
            out.append((kind, s2, p))
    return out


def module_fn(ex, st, mod, attr, e, cx, k):
    args = e.args
    if mod == 'sys' and attr == 'exit':
        return ex.do_raise(st, cx, 'SystemExit', e, why='sys.exit')
    if mod == 'math' and attr == 'ceil':
        d = _is_div_call(args[0])
        if d is None:
            raise VCError(f'math.ceil of a non-division outside subset: {ast.unparse(e)}')

        def f(st, a):
            n = ex.coerce(a, INT).z
            if not cx.spec:
                exact_float_site(ex, st, cx, e, n, ast.unparse(e))
            return k(st, SV(INT, (n + I(d[1] - 1)) / I(d[1])))
        return ex.ev(st, d[0], cx, f)
    if mod == 'io' and attr == 'StringIO' and not args:
        s2, r = ex.new_list(st, T.SIO, I(0), ex.empty_arr(INT), 'sio')
        return k(s2, r)
    if mod == 'click' and attr == 'echo':
        return k(st, NONE_SV)
    if mod == 're' and attr in ('search', 'match', 'fullmatch'):
        # regular-expression matching is opaque: any outcome (no match, or some match object)
        def f(st, vs):
            m = ex.fresh(T.opt(T.Ty('match')), 'match')
            st = st.assume(m.z >= 0)
            # trusted facts about one pattern, stated by the contract: groups that take part in every match of it
            facts = (getattr(cx.contract, 'regex_facts', None) or {}) if cx.contract is not None else {}
            for g_ in facts.get(ast.unparse(args[0]), []):
                hg = ex.uf('match_has_group', z3.IntSort(), z3.IntSort(), z3.BoolSort())
                st = st.assume(z3.Implies(m.z != 0, hg(m.z, I(g_))))
                note = f'regex fact (trusted): every match of {ast.unparse(args[0])} has group {g_}'
                if note not in ex.notes:
                    ex.notes.append(note)
            return k(st, m)
        return ex.ev_list(st, args, cx, f)
    if mod == 're' and attr == 'compile':
        return k(st, SV(OPAQUE, I(0)))
    if mod == 're' and attr == 'escape':
        return ex.ev(st, args[0], cx, lambda s_, v: k(s_, SV(STR, ex.uf('re_escape', z3.StringSort(), z3.StringSort())(v.z))))
    if mod == 're' and attr == 'findall':
        # re.findall(pattern, text): the list of all matches, in order -- abstractly: a list enumerating exactly the
        # set  matches(pattern, text)  (trusted library semantics; pos is the first index of a match in the list)
        def ffind(st, vs):
            pat, text = vs[0], vs[1]
            ms = ex.uf('re_matches', z3.StringSort(), z3.StringSort(), z3.ArraySort(z3.StringSort(), z3.BoolSort()))(pat.z, text.z)
            n_ = ex.fresh_z(z3.IntSort(), 'nfound')
            arr = ex.fresh_z(z3.ArraySort(z3.IntSort(), z3.StringSort()), 'found')
            ex.counter += 1
            pos = z3.Function(f'foundpos!{ex.counter}', z3.StringSort(), z3.IntSort())
            j_, w_ = z3.Int('j!fa'), z3.String('w!fa')
            st = st.assume(n_ >= 0,
                           z3.ForAll([j_], z3.Implies(z3.And(j_ >= 0, j_ < n_), z3.Select(ms, z3.Select(arr, j_))),
                                     patterns=[z3.Select(arr, j_)]),
                           z3.ForAll([w_], z3.Implies(z3.Select(ms, w_), z3.And(pos(w_) >= 0, pos(w_) < n_,
                                                                               z3.Select(arr, pos(w_)) == w_)),
                                     patterns=[z3.Select(ms, w_)]))
            s2, r = ex.new_list(st, T.lst(STR), n_, arr, 'findall')
            return k(s2, r)
        return ex.ev_list(st, args[:2], cx, ffind)
    if mod == 're' and attr == 'sub' and len(args) == 3:
        # re.sub(pattern, replacement, text) with a constant replacement (a string, or `lambda m: <string>`)
        repl = args[1]
        if isinstance(repl, ast.Lambda) and isinstance(repl.body, ast.Name):
            repl = repl.body

        def fsub(st, vs):
            pat, rp, text = vs
            if rp.ty.kind != 'str':
                raise VCError('re.sub with a non-constant replacement')
            f_ = ex.uf('re_sub', z3.StringSort(), z3.StringSort(), z3.StringSort(), z3.StringSort())
            return k(st, SV(STR, f_(pat.z, rp.z, text.z)))
        return ex.ev_list(st, [args[0], repl, args[2]], cx, fsub)
    if mod == 'os.path*':
        # path manipulation is opaque: some string / some boolean (the file system is outside the contract)
        # path functions are deterministic functions of their arguments (the file system does not change during a call)
        def f(st, vs):
            zs = [v.z for v in vs]
            if not all(z.sort() == z3.StringSort() for z in zs):
                raise VCError(f'os.path.{attr} on non-string arguments')
            if attr in ('exists', 'isfile', 'isdir'):
                return k(st, SV(BOOL, ex.uf('path_' + attr, *([z3.StringSort()] * len(zs)), z3.BoolSort())(*zs)))
            if attr == 'splitext':
                a = ex.uf('path_splitext0', z3.StringSort(), z3.StringSort())(zs[0])
                b = ex.uf('path_splitext1', z3.StringSort(), z3.StringSort())(zs[0])
                ty = T.tup(STR, STR)
                return k(st, SV(ty, T.sort_of(ty).mk(a, b)))
            return k(st, SV(STR, ex.uf(f'path_{attr}{len(zs)}', *([z3.StringSort()] * len(zs)), z3.StringSort())(*zs)))
        return ex.ev_list(st, args, cx, f)
    if mod in ('os', 'shutil') and attr in ('remove', 'unlink', 'rename', 'replace', 'rmdir', 'removedirs', 'truncate',
                                            'rmtree', 'move'):
        # deleting / replacing a file is a write to the file system; no contract in this repository lists the file
        # system in its frame, so the call must be unreachable (frame obligation, refuted when the path is feasible)
        c_ = cx.contract if cx is not None else None
        if c_ is not None and getattr(c_, 'destroys_files', False):
            return ex.ev_list(st, args, cx, lambda s_, vs: k(s_, NONE_SV))

        def fdel(st, vs):
            ex.oblige(st, ex.site(cx, e, f'frame[filesystem]:{mod}.{attr}'), z3.BoolVal(False), 'frame',
                      dict(clause=f'{mod}.{attr}(...) deletes or replaces a file: not in the frame of any contract'))
            return k(st, NONE_SV)
        return ex.ev_list(st, args, cx, fdel)
    if mod == 'os' or mod.startswith('os.'):
        raise VCError(f'os function {attr} needs an assumed contract')
    raise VCError(f'module function {mod}.{attr} outside subset')


def builtin_method(ex, st, obj, mname, args, kwargs, cx, node, k):
    t = obj.ty
    # ---- int ------------------------------------------------------------------------------
    if t.kind in ('int', 'bool'):
        v = ex.coerce(obj, INT).z
        if mname == 'to_bytes':
            return to_bytes(ex, st, v, args, kwargs, cx, node, k)
        if mname == 'bit_length':
            bl = ex.uf('bit_length', z3.IntSort(), z3.IntSort())
            return k(st.assume(bl(v) >= 0), SV(INT, bl(v)))
    # ---- list / bytearray -----------------------------------------------------------------
    if t.kind == 'list':
        ety = t.args[0]
        n = ex.list_len(st, obj)
        arr = ex.list_arr(st, obj)
        is_bytes = (t == T.BYTEARRAY)
        jv = z3.Int('j!lm')
        if mname == 'append':
            a0 = args[0]
            if a0.ty.kind == 'opt' and a0.ty.args[0].kind == 'str' and a0.ty.args[0] == ety and not cx.spec:
                # an optional scalar appended to a list of that scalar (list[str] receiving a `str?` local): that the value
                # is not None here is an obligation (the list's element type is an invariant its readers rely on)
                dt_ = T.sort_of(a0.ty)
                ex.oblige(st, ex.site(cx, node, 'element-not-None'), dt_.is_some(a0.z), kind='absence',
                          info=dict(why=f'{ast.unparse(node)}: the appended value may be None'))
                st = st.assume(dt_.is_some(a0.z))
                args = [SV(ety, dt_.val(a0.z))] + list(args[1:])
            x = ex.coerce(args[0], ety, 'list.append')

            def cont(s):
                return k(ex.set_list(s, obj, n + 1, ex.store(arr, n, x.z)), NONE_SV)
            if is_bytes:
                return ex.guard_raise(st, cx, z3.Or(x.z < 0, x.z > 255), 'ValueError', node, cont,
                                      why='byte must be in range(0, 256)')
            return cont(st)
        if mname == 'decode' and t in (T.BYTEARRAY, T.BYTES):
            # the latin-1 text of a byte string is used only as the data of IntelHex.puts: it stands for the bytes themselves
            return k(st, obj)
        if mname == 'extend' and args[0].ty.kind == 'opt' and args[0].ty.args[0].kind == 'list':
            # extending by None raises TypeError
            o_ = args[0]
            inner_ = SV(o_.ty.args[0], o_.z)
            return ex.guard_raise(st, cx, o_.z == 0, 'TypeError', node,
                                  lambda s_: builtin_method(ex, s_, obj, mname, [inner_] + list(args[1:]), kwargs, cx, node, k),
                                  why='extend(None)')
        if mname == 'extend':
            o = args[0]
            on, oat0 = ex.seq_view(st, o)
            oety = o.ty.args[0] if o.ty.kind in ('list', 'seq') and o.ty.args else None
            if oety is not None and oety != ety and T.sort_of(oety) != T.sort_of(ety):
                oat = lambda i_: ex.coerce(SV(oety, oat0(i_)), ety, 'list.extend').z      # noqa: E731
            else:
                oat = oat0

            def cont(s):
                newa = z3.Lambda([jv], z3.If(jv < n, z3.Select(arr, jv), oat(jv - n)))
                return k(ex.set_list(s, obj, n + on, newa), NONE_SV)
            if is_bytes and not (o.ty == T.BYTEARRAY):
                bad = z3.Exists([jv], z3.And(jv >= 0, jv < on, z3.Or(oat(jv) < 0, oat(jv) > 255)))
                return ex.guard_raise(st, cx, bad, 'ValueError', node, cont, why='byte must be in range(0, 256)')
            return cont(st)
        if mname == 'insert':
            i = ex.coerce(args[0], INT).z
            x = ex.coerce(args[1], ety, 'list.insert')
            isimp = z3.simplify(i)
            if z3.is_int_value(isimp) and isimp.as_long() == 0:
                pos = I(0)
            else:
                pos = z3.If(i < 0, z3.If(i + n < 0, I(0), i + n), z3.If(i > n, n, i))
            newa = z3.Lambda([jv], z3.If(jv < pos, z3.Select(arr, jv), z3.If(jv == pos, x.z, z3.Select(arr, jv - 1))))
            return k(ex.set_list(st, obj, n + 1, newa), NONE_SV)
        if mname == 'pop':
            if args:
                i = ex.coerce(args[0], INT).z
            else:
                i = n - 1
            isimp = z3.simplify(i)
            pos = z3.If(i < 0, i + n, i)
            if z3.is_int_value(isimp):
                pos = i if isimp.as_long() >= 0 else i + n
            if not args:
                pos = n - 1

            def cont(s):
                if not args:
                    newa = arr
                else:
                    newa = z3.Lambda([jv], z3.If(jv < pos, z3.Select(arr, jv), z3.Select(arr, jv + 1)))
                return k(ex.set_list(s, obj, n - 1, newa), SV(ety, ex.select(arr, pos)))
            return ex.guard_raise(st, cx, z3.Or(pos < 0, pos >= n), 'IndexError', node, cont, why='pop from list')
        if mname == 'copy':
            s2, r = ex.new_list(st, t, n, arr, 'cpy')
            return k(s2, r)
        if mname == 'reverse':
            return k(ex.set_list(st, obj, n, z3.Lambda([jv], z3.Select(arr, n - 1 - jv))), NONE_SV)
        if mname == 'clear':
            return k(ex.set_list(st, obj, I(0), arr), NONE_SV)
    # ---- regular-expression match object (opaque) -------------------------------------------------
    if t.kind == 'match':
        if mname == 'group':
            gi = ex.coerce(args[0], INT).z if args else I(0)
            has = ex.uf('match_has_group', z3.IntSort(), z3.IntSort(), z3.BoolSort())(obj.z, gi)
            has = z3.Or(gi == 0, has)          # group 0 (the whole match) is always present
            txt = ex.uf('match_group', z3.IntSort(), z3.IntSort(), z3.StringSort())(obj.z, gi)
            dt = T.sort_of(T.opt(STR))
            return k(st, SV(T.opt(STR), z3.If(has, dt.some(txt), dt.none)))
        if mname == 'groups':
            n = ex.uf('match_ngroups', z3.IntSort(), z3.IntSort())(obj.z)
            # only its length is ever used: a list of that length
            s2, r = ex.new_list(st.assume(n >= 0), T.lst(T.opt(STR)), n, ex.empty_arr(INT) if False else
                                z3.K(z3.IntSort(), T.sort_of(T.opt(STR)).none), 'groups')
            return k(s2, r)
    if t.kind == 'opaque' and mname in ('search', 'match', 'fullmatch'):
        m = ex.fresh(T.opt(T.Ty('match')), 'match')
        return k(st.assume(m.z >= 0), m)
    # ---- configuration node (parsed YAML) ------------------------------------------------------
    if t.kind == 'cfg':
        if mname == 'get':
            key = args[0]
            has = ex.uf('cfg_has', z3.IntSort(), z3.StringSort(), z3.BoolSort())(obj.z, key.z)
            got = SV(T.CFG, ex.uf('cfg_get', z3.IntSort(), z3.StringSort(), z3.IntSort())(obj.z, key.z))
            dflt = args[1] if len(args) > 1 else NONE_SV
            if dflt.ty.kind == 'none':
                return k(st, SV(T.opt(T.CFG), z3.If(has, got.z, I(0))))
            if dflt.ty.kind in ('int', 'str', 'bool'):
                return k(st, SV(dflt.ty, z3.If(has, ex.coerce(got, dflt.ty).z, dflt.z)))
            if dflt.ty.kind == 'cfg' or T.is_reflike(dflt.ty):
                return k(st, SV(T.CFG, z3.If(has, got.z, dflt.z)))
            raise VCError(f'cfg.get default of type {dflt.ty!r}')
        if mname in ('keys', 'items', 'values'):
            raise VCError('iteration over configuration dict keys outside subset')
    # ---- dict -----------------------------------------------------------------------------
    if t.kind == 'dict':
        kt, vt = t.args
        if mname == 'get':
            key = ex.coerce(args[0], kt)
            present = z3.Select(ex.dict_dom(st, obj), key.z)
            val = SV(vt, z3.Select(ex.dict_val(st, obj), key.z))
            if not cx.spec:
                facts = ex.type_facts(val)       # the values stored in a dict[K, C] are objects of class C (never None)
                if facts:
                    st = st.assume(z3.Implies(present, z3.And(facts)))
            dflt = args[1] if len(args) > 1 else NONE_SV
            if dflt.ty.kind == 'none':
                rt = T.opt(vt)
                a = ex.coerce(val, rt)
                b = ex.coerce(dflt, rt)
            else:
                rt = vt
                a, b = val, ex.coerce(dflt, vt)
            return k(st, SV(rt, z3.If(present, a.z, b.z)))
    # ---- set ------------------------------------------------------------------------------
    if t.kind == 'set':
        ety = t.args[0]
        content = ex.set_content(st, obj)
        key_, srt = ex.skey(ety)
        if mname == 'add':
            x = ex.coerce(args[0], ety)
            arr = ex.heap_get(st, key_, srt)
            return k(st.setheap(key_, z3.Store(arr, obj.z, z3.Store(content, x.z, z3.BoolVal(True)))), NONE_SV)
        if mname == 'update':
            o = args[0]
            arr = ex.heap_get(st, key_, srt)
            if o.ty.kind == 'list':
                n_ = z3.simplify(ex.list_len(st, o))
                if z3.is_int_value(n_) and n_.as_long() <= 4:
                    c2 = content
                    for j_ in range(n_.as_long()):
                        c2 = z3.Store(c2, ex.list_at(st, o, I(j_)), z3.BoolVal(True))
                    return k(st.setheap(key_, z3.Store(arr, obj.z, c2)), NONE_SV)
            if o.ty.kind in ('set',):
                oc = ex.set_content(st, o)
                x_ = z3.Const('x!upd', T.sort_of(ety))
                c2 = z3.Lambda([x_], z3.Or(z3.Select(content, x_), z3.Select(oc, x_)))
                return k(st.setheap(key_, z3.Store(arr, obj.z, c2)), NONE_SV)
            raise VCError('set.update argument outside subset')
        if mname in ('union', 'intersection', 'difference') and len(args) == 1 and args[0].ty.kind == 'opt' \
                and args[0].ty.args[0].kind == 'set':
            # an optional set used as a set: None here would be a TypeError
            ex.oblige(st, ex.site(cx, node, 'no-TypeError'), args[0].z != 0, kind='absence',
                      info=dict(why=f'set.{mname}(None) raises TypeError'))
            args = [SV(args[0].ty.args[0], args[0].z)]
        if mname in ('union', 'intersection', 'difference') and len(args) == 1 and args[0].ty.kind == 'set' \
                and T.sort_of(args[0].ty.args[0]) == T.sort_of(ety):
            # a NEW set whose membership is the pointwise combination; both operands are left as they are
            oc = ex.set_content(st, args[0])
            x_ = z3.Const('x!sop', T.sort_of(ety))
            a_, b_ = z3.Select(content, x_), z3.Select(oc, x_)
            body = {'union': z3.Or(a_, b_), 'intersection': z3.And(a_, b_), 'difference': z3.And(a_, z3.Not(b_))}[mname]
            s2, r = ex.alloc(st, t, 'set' + mname)
            arr = ex.heap_get(s2, key_, srt)
            return k(s2.setheap(key_, z3.Store(arr, r.z, z3.Lambda([x_], body))), r)
        if mname == 'copy':
            s2, r = ex.alloc(st, t, 'setcpy')
            arr = ex.heap_get(s2, key_, srt)
            return k(s2.setheap(key_, z3.Store(arr, r.z, content)), r)
    # ---- str ------------------------------------------------------------------------------
    if t.kind == 'str':
        if mname == 'startswith':
            if args[0].ty.kind == 'list':
                # a tuple / list of alternatives built from a literal: concrete length required
                n_ = z3.simplify(ex.list_len(st, args[0]))
                if not z3.is_int_value(n_):
                    raise VCError('startswith(tuple) with a tuple of unknown length')
                alts = [ex.list_at(st, args[0], I(j_)) for j_ in range(n_.as_long())]
                return k(st, SV(BOOL, z3.Or([z3.PrefixOf(a_, obj.z) for a_ in alts])))
            return k(st, SV(BOOL, z3.PrefixOf(args[0].z, obj.z)))
        if mname == 'endswith':
            return k(st, SV(BOOL, z3.SuffixOf(args[0].z, obj.z)))
        if mname in ('strip', 'lower', 'upper', 'rstrip', 'lstrip'):
            f_ = ex.uf('str_' + mname, z3.StringSort(), z3.StringSort())
            return k(st, SV(STR, f_(obj.z)))
        if mname == 'split' and len(args) >= 1 and args[0].ty.kind == 'str':
            # s.split(sep[, maxsplit]) with an explicit separator: a fresh list of at least one piece; the pieces are
            # an (uninterpreted, deterministic) function of the arguments
            mx = ex.coerce(args[1], INT).z if len(args) > 1 else I(-1)
            n_ = ex.uf('split_len', z3.StringSort(), z3.StringSort(), z3.IntSort(), z3.IntSort())(obj.z, args[0].z, mx)
            it_ = ex.uf('split_item', z3.StringSort(), z3.StringSort(), z3.IntSort(), z3.IntSort(), z3.StringSort())
            j_ = z3.Int('j!split')
            st2 = st.assume(n_ >= 1, z3.Implies(mx >= 0, n_ <= mx + 1))
            s2, r = ex.new_list(st2, T.lst(STR), n_, z3.Lambda([j_], it_(obj.z, args[0].z, mx, j_)), 'split')
            return k(s2, r)
        if mname == 'join' and len(args) == 1 and args[0].ty.kind == 'list' and args[0].ty.args[0].kind == 'str':
            # sep.join(list of str): an (uninterpreted, deterministic) function of the separator, the length and the items
            f_ = ex.uf('str_join', z3.StringSort(), z3.IntSort(), z3.ArraySort(z3.IntSort(), z3.StringSort()), z3.StringSort())
            return k(st, SV(STR, f_(obj.z, ex.list_len(st, args[0]), ex.list_arr(st, args[0]))))
        if mname in ('partition', 'rpartition') and len(args) == 1 and args[0].ty.kind == 'str':
            # s.partition(sep) -> (head, sep-or-empty, tail): three (uninterpreted, deterministic) functions of s and sep
            ty3 = T.tup(STR, STR, STR)
            parts = [ex.uf(f'str_{mname}{i_}', z3.StringSort(), z3.StringSort(), z3.StringSort())(obj.z, args[0].z) for i_ in range(3)]
            st2 = st.assume(z3.Or(parts[1] == args[0].z, parts[1] == z3.StringVal('')),
                            z3.Concat(parts[0], parts[1], parts[2]) == obj.z)
            return k(st2, SV(ty3, T.sort_of(ty3).mk(*parts)))
        if mname == 'split' and len(args) == 0:
            # s.split(): the whitespace-separated words -- a fresh list (possibly empty) whose pieces are an
            # (uninterpreted, deterministic) function of the string
            n_ = ex.uf('words_len', z3.StringSort(), z3.IntSort())(obj.z)
            it_ = ex.uf('words_item', z3.StringSort(), z3.IntSort(), z3.StringSort())
            j_ = z3.Int('j!words')
            s2, r = ex.new_list(st.assume(n_ >= 0), T.lst(STR), n_, z3.Lambda([j_], it_(obj.z, j_)), 'words')
            return k(s2, r)
        if mname == 'isspace':
            f_ = ex.uf('str_isspace', z3.StringSort(), z3.BoolSort())
            return k(st, SV(BOOL, f_(obj.z)))
        if mname == 'replace':
            # str.replace replaces EVERY occurrence; z3's str.replace only the first, so the result is left
            # uninterpreted (a deterministic function of the three strings); None as an argument raises TypeError
            def unwrap(s_, i_, cont):
                a_ = args[i_]
                if a_.ty.kind == 'opt' and a_.ty.args[0].kind == 'str':
                    dt_ = T.sort_of(a_.ty)
                    return ex.guard_raise(s_, cx, z3.Not(dt_.is_some(a_.z)), 'TypeError', node,
                                          lambda s2: cont(s2, dt_.val(a_.z)), why='replace() argument is None')
                return cont(s_, ex.coerce(a_, STR).z)
            rp = ex.uf('str_replace', z3.StringSort(), z3.StringSort(), z3.StringSort(), z3.StringSort())
            return unwrap(st, 0, lambda s1, a0: unwrap(s1, 1, lambda s2, a1: k(s2, SV(STR, rp(obj.z, a0, a1)))))
    raise VCError(f'method {mname} of {t!r} outside subset: {ast.unparse(node)}')


def to_bytes(ex, st, v, args, kwargs, cx, node, k):
    """int.to_bytes(n, byteorder, signed=) -- trusted builtin, axiomatised:
       raises ValueError for a negative length / unknown byte order, OverflowError iff the value is outside the
       n-byte range for that signedness; otherwise a bytes object of length n whose element j is
       tb_byte(value mod 256**n, n, little?, j) -- the lemma `to_bytes_def` (CPython fact, validated by sampling)
       states tb_byte(u, n, little, j) == (u div 256**(j if little else n-1-j)) mod 256."""
    n = ex.coerce(args[0], INT).z
    order = kwargs.get('byteorder', args[1] if len(args) > 1 else None)
    signed = kwargs.get('signed', args[2] if len(args) > 2 else SV(BOOL, z3.BoolVal(False)))
    sg = ex.truth(st, signed)
    p = ex.pow2(8 * n)
    half = ex.pow2(8 * n - 1)
    overflow = z3.If(sg, z3.Or(v < -half, v >= half), z3.Or(v < 0, v >= p))
    tb = ex.uf('tb_byte', z3.IntSort(), z3.IntSort(), z3.BoolSort(), z3.IntSort(), z3.IntSort())

    def cont(s):
        j = z3.Int('j!tb')
        u = ex.bi.pmod(v, p)
        little = z3.simplify(order.z == z3.StringVal('little'))
        s2, r = ex.new_list(s, T.BYTES, n, z3.Lambda([j], tb(u, n, little, j)), 'bytes')
        return k(s2, r)
    bad_order = z3.And(order.z != z3.StringVal('little'), order.z != z3.StringVal('big'))
    return ex.guard_raise(st, cx, z3.Or(n < 0, bad_order), 'ValueError', node,
                          lambda s0: ex.guard_raise(s0, cx, overflow, 'OverflowError', node, cont, why='int.to_bytes'),
                          why='int.to_bytes length/byteorder')
