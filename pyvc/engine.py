"""pyvc: verification-condition generator for a subset of Python, by forward symbolic
execution of the real function bodies of /repo against sidecar contracts.

Semantics assumed (reported in every evidence file):
  * int is the mathematical integer; // and % are floor division / modulus.
  * objects live in a component heap (one SMT array per field); lists, dicts, sets are heap
    objects whose content is a Seq / array-with-domain value; aliasing is therefore sound.
  * a callee with a contract is replaced by its contract (assert pre, havoc frame, assume post);
    a callee without one is inlined (bounded depth) or the function is rejected (outside-subset).
  * loops are cut by their invariants; abrupt termination (raise / sys.exit) is modelled as
    outcomes carrying the exception kind.
"""
import ast
import sys

import z3

from . import vtypes as T
from .vtypes import Ty, INT, BOOL, STR, NONE, FLOAT, OPAQUE, CFG

sys.setrecursionlimit(20000)

I = z3.IntVal
EXC_ALL = 'BaseException'
OPERATOR_CODES = {n: i + 1 for i, n in enumerate(
    ['add', 'sub', 'mul', 'truediv', 'mod', 'and_', 'or_', 'xor', 'rshift', 'lshift', 'neg', 'ge', 'le', 'gt', 'lt', 'eq', 'ne'])}


class VCError(Exception):
    """The function left the accepted subset (never mapped to a violation)."""


class NotPure(Exception):
    """an expression evaluated in direct style turned out to change the state (contracted getter, allocation)"""


class SV:
    __slots__ = ('ty', 'z')

    def __init__(self, ty, z):
        self.ty = ty
        self.z = z

    def __repr__(self):
        return f'SV({self.ty!r}, {self.z})'


NONE_SV = SV(NONE, None)


class State:
    __slots__ = ('vars', 'heap', 'pc', 'handlers', 'snaps', 'guards')

    def __init__(self, vars=None, heap=None, pc=(), handlers=(), snaps=None, guards=()):
        self.vars = vars or {}
        self.heap = heap or {}
        self.pc = pc
        self.handlers = handlers
        self.snaps = snaps or {}
        self.guards = guards

    def copy(self, **kw):
        s = State(self.vars, self.heap, self.pc, self.handlers, self.snaps, self.guards)
        for k, v in kw.items():
            setattr(s, k, v)
        return s

    def setvar(self, name, sv):
        v = dict(self.vars)
        v[name] = sv
        return self.copy(vars=v)

    def assume(self, *conds):
        cs = tuple(c for c in conds if not z3.is_true(c))
        if not cs:
            return self
        return self.copy(pc=self.pc + cs)

    def setheap(self, key, arr):
        h = dict(self.heap)
        h[key] = arr
        return self.copy(heap=h)

    def snap(self, label):
        s = dict(self.snaps)
        s[label] = (self.vars, self.heap)
        return self.copy(snaps=s)


class Ob:
    """One proof obligation instance (one path)."""
    __slots__ = ('name', 'assumptions', 'goal', 'fn', 'kind', 'info', 'splits')

    def __init__(self, name, assumptions, goal, fn, kind, info=None, splits=None):
        self.name = name
        self.assumptions = assumptions
        self.goal = goal
        self.fn = fn
        self.kind = kind
        self.info = info or {}
        self.splits = splits or []      # [(term, lo, hi)]: discharge by exhaustive case split on small-range terms


class Cx:
    """Static context of the code being executed (one per function frame)."""

    def __init__(self, fi, spec=False, depth=0, root=None, contract=None, label=None, local_types=None):
        self.fi = fi
        self.module = fi.module if fi is not None else None
        self.cls = fi.cls if fi is not None else None
        self.spec = spec
        self.depth = depth
        self.root = root or self
        self.contract = contract
        self.label = label
        self.local_types = local_types or {}
        self.spec_vars = {}

    def child(self, fi, contract=None):
        return Cx(fi, spec=self.spec, depth=self.depth + 1, root=self.root, contract=contract, label=self.label)

    def as_spec(self):
        c = Cx(self.fi, spec=True, depth=self.depth, root=self.root, contract=self.contract, label=self.label,
               local_types=self.local_types)
        return c


def truthy(sv):
    t = sv.ty
    if t.kind == 'bool':
        return sv.z
    if t.kind in ('int', 'enum'):
        return sv.z != 0
    if t.kind == 'str':
        return z3.Length(sv.z) > 0
    if t.kind == 'seq':
        return z3.Length(sv.z) > 0
    if t.kind == 'none':
        return z3.BoolVal(False)
    if t.kind == 'opt':
        if t.args[0].kind == 'cfg':
            # an optional configuration value: not None AND a truthy YAML value (0, '', [] and {} are falsy)
            return z3.And(sv.z != 0, z3.Function('cfg_truthy', z3.IntSort(), z3.BoolSort())(sv.z))
        if T.is_reflike(t.args[0]):
            return sv.z != 0
        dt = T.sort_of(t)
        inner = SV(t.args[0], dt.val(sv.z))
        if t.args[0].kind in ('int', 'bool', 'str', 'seq', 'enum'):
            return z3.And(dt.is_some(sv.z), truthy(inner))
        return dt.is_some(sv.z)
    if t.kind == 'ref' or t.kind == 'opaque':
        return z3.BoolVal(True)
    if t.kind == 'cfg':
        return z3.Function('cfg_truthy', z3.IntSort(), z3.BoolSort())(sv.z)
    if t.kind == 'union':
        U = T.union_datatype()
        return z3.Or(z3.And(U.is_UI(sv.z), U.ui(sv.z) != 0), z3.And(U.is_US(sv.z), z3.Length(U.us(sv.z)) > 0), U.is_UR(sv.z))
    if t.kind == 'match':
        return z3.BoolVal(True)
    raise VCError(f'truthiness of {t!r} needs the heap')


BUILTIN_EXC = {'ValueError', 'KeyError', 'IndexError', 'OverflowError', 'SyntaxError', 'SystemExit',
               'NotImplementedError', 'TypeError', 'ZeroDivisionError', 'AttributeError', 'Exception',
               'AssertionError', 'FileNotFoundError', 'StopIteration', 'RecursionError'}


def exc_matches(kind, handler):
    if handler in (EXC_ALL, kind):
        return True
    if handler == 'Exception' and kind != 'SystemExit':
        return True
    if handler == 'LookupError' and kind in ('KeyError', 'IndexError'):
        return True
    if handler == 'ArithmeticError' and kind in ('OverflowError', 'ZeroDivisionError'):
        return True
    return False


class Executor:
    def __init__(self, repo, reg, prune=True):
        self.repo = repo
        self.reg = reg
        self.tenv = T.TypeEnv(repo)
        self.obs = []
        self.heap0 = {}
        self.counter = 0
        self.clsof = z3.Function('clsof', z3.IntSort(), z3.IntSort())
        self.prune = prune
        self._site_ids = {}
        self._ufs = {}
        self._spec_rec = {}
        self.notes = []          # assumptions worth reporting (float sites etc.)
        self.assumed_used = set()
        self.lemmas_applied = set()
        self.fresh_refs = {}
        self.global_axioms = []
        self._lam_cache = {}
        self.block_map = {}
        self.verifying_block = None
        self._newest_cache = {}
        self.inlined = set()
        self.cur_fn = None
        self.cur_contract = None
        self.cur_fi = None
        self._prune_solver = None
        self.stats = dict(paths=0, pruned=0)
        from .builtins import Builtins
        self.bi = Builtins(self)

    # ------------------------------------------------------------------ utilities
    def fresh_z(self, sort, hint='v'):
        self.counter += 1
        return z3.Const(f'{hint}!{self.counter}', sort)

    def fresh(self, ty, hint='v'):
        if ty.kind == 'none':
            return NONE_SV
        return SV(ty, self.fresh_z(T.sort_of(ty), hint))

    def uf(self, name, *sorts):
        if name not in self._ufs:
            self._ufs[name] = z3.Function(name, *sorts)
            if name == 'cfg_len':
                # the length of a configured list / dict is never negative
                x_ = z3.Int('x!cfglen')
                self.global_axioms.append(z3.ForAll([x_], self._ufs[name](x_) >= 0, patterns=[self._ufs[name](x_)]))
        return self._ufs[name]

    def heap_get(self, st, key, sort=None):
        if key in st.heap:
            return st.heap[key]
        if key not in self.heap0:
            if sort is None:
                raise VCError(f'heap component {key} used before its sort is known')
            self.heap0[key] = z3.Const('H0_' + key, sort)
            if key.startswith('llen'):
                # list lengths are never negative (fact about every Python list in the pre-state)
                r = z3.Int('r!len')
                self.global_axioms.append(z3.ForAll([r], z3.Select(self.heap0[key], r) >= 0,
                                                    patterns=[z3.Select(self.heap0[key], r)]))
        return self.heap0[key]

    def oblige(self, st, name, goal, kind='assert', info=None):
        if z3.is_true(goal):
            goal = z3.BoolVal(True)
        self.obs.append(Ob(name, st.pc + st.guards, goal, self.cur_fn, kind, info, self.split_terms(st, name)))
        self.obs[-1].info['_axioms_from'] = len(self.global_axioms)
        self.obs[-1].info['_entry_vars'] = getattr(self, 'entry_vars', None) if self.verifying_block is None else None

    def split_terms(self, st, name):
        """Terms (evaluated in the obligation's own state) on which the discharge may case-split."""
        c = self.cur_contract
        if c is None or not c.split:
            return []
        out = []
        scx = Cx(self.cur_fi, spec=True, contract=c)
        from .stmts import contract_loops
        for o_, sp_ in contract_loops(self.cur_fi, c).items():
            if f'$i{o_}' in st.vars and sp_.get('idx'):
                st = st.setvar(sp_['idx'], st.vars[f'$i{o_}'])
        for pat, exprs in c.split:
            if pat and pat not in name:
                continue
            for src, (lo, hi) in exprs.items():
                try:
                    v = self.pure(st, ast.parse(src, mode='eval').body, scx)
                except Exception:
                    continue
                z = v.z
                if z is None or z.sort() != z3.IntSort():
                    continue
                z = z3.simplify(z)
                if z3.is_int_value(z):
                    continue
                # c + k  ->  split on the constant c with the shifted range
                if z3.is_app_of(z, z3.Z3_OP_ADD) and z.num_args() == 2:
                    a_, b_ = z.arg(0), z.arg(1)
                    if z3.is_int_value(a_) and z3.is_const(b_) and b_.decl().kind() == z3.Z3_OP_UNINTERPRETED:
                        z, lo, hi = b_, lo - a_.as_long(), hi - a_.as_long()
                    elif z3.is_int_value(b_) and z3.is_const(a_) and a_.decl().kind() == z3.Z3_OP_UNINTERPRETED:
                        z, lo, hi = a_, lo - b_.as_long(), hi - b_.as_long()
                if not any(z.eq(t) for t, _, _ in out):
                    out.append((z, lo, hi))
        return out

    def site(self, cx, node, kind):
        """Stable ordinal of an AST node among the nodes of its function (source order)."""
        fi = cx.fi
        fid = id(fi.node) if fi is not None else 0
        if fid not in self._site_ids:
            m = {}
            if fi is not None:
                for i, n in enumerate(ast.walk(fi.node)):
                    m[id(n)] = i
                # renumber densely per node type
                per = {}
                dense = {}
                for n in ast.walk(fi.node):
                    tname = type(n).__name__
                    dense[id(n)] = per.get(tname, 0)
                    per[tname] = per.get(tname, 0) + 1
                m = dense
            self._site_ids[fid] = m
        o = self._site_ids[fid].get(id(node), '?')
        fl = fi.key.split(':')[1] if fi is not None else '?'
        if cx.root is not cx:
            return f'{cx.root.label}/in:{fl}/{kind}#{o}'
        return f'{cx.label}/{kind}#{o}'

    def feasible(self, st, cond):
        """False only if pc & cond is definitely unsatisfiable (quick check)."""
        c = z3.simplify(cond)
        if z3.is_false(c):
            return False
        if z3.is_true(c) or not self.prune:
            return True
        s = z3.Solver()
        s.set('timeout', 300)
        for p in st.pc:
            s.add(p)
        s.add(c)
        r = s.check()
        if r == z3.unsat:
            self.stats['pruned'] += 1
            return False
        return True

    def proves(self, st, cond, timeout=200):
        """True only if the (quantifier-free part of the) path condition entails cond (quick check)."""
        c = z3.simplify(cond)
        if z3.is_true(c):
            return True
        if z3.is_false(c):
            return False
        s = z3.Solver()
        s.set('timeout', timeout)
        for p in st.pc + st.guards:
            if not z3.is_quantifier(p):
                s.add(p)
        s.add(z3.Not(c))
        return s.check() == z3.unsat

    # ------------------------------------------------------------------ types
    def ann_type(self, ann):
        if ann is None:
            return None
        try:
            return self.tenv.from_ast(ann)
        except Exception:
            return None

    def field_type(self, cname, fname):
        for c in self.repo.mro(cname):
            ft = self.reg.fields.get(c, {}).get(fname)
            if ft is not None:
                return self.tenv.parse(ft)
        # subclasses may declare the field (dynamic type more specific than static one)
        for c in sorted(self.repo.subclasses.get(cname, ())):
            ft = self.reg.fields.get(c, {}).get(fname)
            if ft is not None:
                return self.tenv.parse(ft)
        # a field of a sibling / unrelated class reached through a guarded (isa) access in a spec: unique by name
        cands = {c: d[fname] for c, d in self.reg.fields.items() if fname in d}
        if len(set(cands.values())) == 1:
            return self.tenv.parse(next(iter(cands.values())))
        # same class family (common root) first
        root = self.repo.mro(cname)[-1] if cname in self.repo.classes else None
        fam = {c: t for c, t in cands.items() if root is not None and c in self.repo.subclasses.get(root, ())}
        if fam and len(set(fam.values())) == 1:
            return self.tenv.parse(next(iter(fam.values())))
        raise VCError(f'field {cname}.{fname} has no declared type (declare_fields)')

    def coerce(self, sv, ty, what='value'):
        s = sv.ty
        if s == ty:
            return sv
        if ty.kind == 'union':
            U = T.union_datatype()
            if s.kind == 'none':
                return SV(ty, U.UN)
            if s.kind in ('int', 'bool', 'enum'):
                return SV(ty, U.UI(self.coerce(sv, INT).z))
            if s.kind == 'str':
                return SV(ty, U.US(sv.z))
            if s.kind == 'fn':
                return SV(ty, U.UI(sv.z))
            if s.kind == 'ref':
                return SV(ty, U.UR(sv.z))
            if s.kind == 'opt' and s.args[0].kind == 'ref':
                return SV(ty, z3.If(sv.z == 0, U.UN, U.UR(sv.z)))
            if s.kind == 'union':
                return SV(ty, sv.z)
        if s.kind == 'union' and ty.kind != 'union':
            U = T.union_datatype()
            # narrowing use (guarded by an isinstance test on the path); absence of TypeError is checked by callers
            if ty.kind == 'int':
                return SV(INT, U.ui(sv.z))
            if ty.kind == 'str':
                return SV(STR, U.us(sv.z))
            if ty.kind == 'ref':
                return SV(ty, U.ur(sv.z))
        if ty.kind == 'opt':
            inner = ty.args[0]
            if s.kind == 'none':
                if T.is_reflike(inner):
                    return SV(ty, I(0))
                return SV(ty, T.sort_of(ty).none)
            if s.kind == 'opt':
                if s.args[0].kind == 'cfg' and inner.kind in ('int', 'str', 'bool'):
                    # an optional configuration value used as an optional scalar: None stays None
                    dt_ = T.sort_of(ty)
                    got_ = self.coerce(SV(T.CFG, sv.z), inner, what)
                    return SV(ty, z3.If(sv.z == 0, dt_.none, dt_.some(got_.z)))
                if T.is_reflike(inner) and T.is_reflike(s.args[0]):
                    return SV(ty, sv.z)
                if T.sort_of(s) == T.sort_of(ty):
                    return SV(ty, sv.z)
                raise VCError(f'cannot coerce {s!r} to {ty!r} ({what})')
            v = self.coerce(sv, inner, what)
            if T.is_reflike(inner):
                return SV(ty, v.z)
            return SV(ty, T.sort_of(ty).some(v.z))
        if s.kind == 'opt' and T.is_reflike(s.args[0]) and T.is_reflike(ty) and s.args[0].kind == ty.kind:
            # implicit unwrap of a nullable reference (None-ness is checked where it is dereferenced)
            return SV(ty, sv.z)
        if ty.kind == 'int' and s.kind == 'bool':
            return SV(INT, z3.If(sv.z, I(1), I(0)))
        if ty.kind == 'int' and s.kind == 'enum':
            return SV(INT, sv.z)
        if ty.kind == 'float' and s.kind == 'int':
            return SV(FLOAT, z3.ToReal(sv.z))
        if ty.kind == 'ref' and s.kind == 'ref':
            if self.repo.is_subclass(s.args[0], ty.args[0]) or self.repo.is_subclass(ty.args[0], s.args[0]):
                return SV(ty, sv.z)
        if s.kind == 'cfg' or (s.kind == 'opt' and s.args[0].kind == 'cfg'):
            # a configuration node used as a scalar / container: what the YAML holds there (trusted typing)
            if ty.kind == 'int':
                return SV(INT, self.uf('cfg_int', z3.IntSort(), z3.IntSort())(sv.z))
            if ty.kind == 'str':
                return SV(STR, self.uf('cfg_str', z3.IntSort(), z3.StringSort())(sv.z))
            if ty.kind == 'bool':
                return SV(BOOL, self.uf('cfg_bool', z3.IntSort(), z3.BoolSort())(sv.z))
            if ty.kind in ('dict', 'list', 'set', 'cfg'):
                return SV(ty, sv.z)
        if ty.kind == 'opaque' or s.kind == 'opaque':
            if T.sort_of(ty) == z3.IntSort() and (sv.z is not None and sv.z.sort() == z3.IntSort()):
                return SV(ty, sv.z)
        if ty.kind == s.kind and ty.kind in ('list', 'dict', 'set', 'seq', 'mset', 'map') \
                and T.sort_of(ty) == T.sort_of(s):
            return SV(ty, sv.z)
        raise VCError(f'cannot coerce {s!r} to {ty!r} ({what})')

    def coerce_chk(self, st, cx, node, sv, ty, what):
        """coerce, turning the implicit unwrapping of an Optional into an explicit `is not None` obligation"""
        s = sv.ty
        if s.kind == 'opt' and ty.kind != 'opt' and ty.kind != 'union' and not cx.spec:
            if T.is_reflike(s.args[0]):
                nn = sv.z != 0
                inner = SV(s.args[0], sv.z)
            else:
                dt = T.sort_of(s)
                nn = dt.is_some(sv.z)
                inner = SV(s.args[0], dt.val(sv.z))
            self.oblige(st, self.site(cx, node, 'not-None'), nn, kind='absence', info=dict(why=f'{what} may be None'))
            return self.coerce(inner, ty, what)
        return self.coerce(sv, ty, what)

    def type_facts(self, sv):
        """Type invariants assumed of inputs / field reads (dynamic class within the static class)."""
        t = sv.ty
        if t.kind == 'ref':
            subs = sorted(self.repo.subclasses.get(t.args[0], ()))
            ids = [self.repo.class_ids[c] for c in subs]
            return [sv.z > 0, z3.Or([self.clsof(sv.z) == i for i in ids])]
        if t.kind == 'opt' and t.args[0].kind == 'ref':
            subs = sorted(self.repo.subclasses.get(t.args[0].args[0], ()))
            ids = [self.repo.class_ids[c] for c in subs]
            return [sv.z >= 0, z3.Or([sv.z == 0] + [self.clsof(sv.z) == i for i in ids])]
        if t.kind in ('list', 'dict', 'set', 'opaque', 'cfg'):
            return [sv.z > 0]
        if t.kind == 'opt' and T.is_reflike(t.args[0]):
            return [sv.z >= 0]
        if t.kind == 'union' and t.args:
            U = T.union_datatype()
            subs = sorted(self.repo.subclasses.get(t.args[0], ()))
            ids = [self.repo.class_ids[c] for c in subs]
            return [z3.Implies(U.is_UR(sv.z), z3.And(U.ur(sv.z) > 0, z3.Or([self.clsof(U.ur(sv.z)) == i for i in ids])))]
        if t.kind == 'enum':
            vals = sorted(self.repo.classes[t.args[0]].enum_members.values())
            if vals and vals == list(range(vals[0], vals[-1] + 1)):
                return [sv.z >= vals[0], sv.z <= vals[-1]]
            return [z3.Or([sv.z == v for v in vals])]
        return []

    def isinstance_cond(self, sv, cname):
        t = sv.ty
        if cname in ('int',) and t.kind != 'union':
            return z3.BoolVal(t.kind in ('int', 'bool', 'enum') and t.kind != 'enum')
        if cname == 'str' and t.kind != 'union':
            return z3.BoolVal(t.kind == 'str')
        if cname == 'bool':
            return z3.BoolVal(t.kind == 'bool')
        if cname == 'list':
            return z3.BoolVal(t.kind == 'list')
        if cname == 'dict':
            return z3.BoolVal(t.kind == 'dict')
        if t.kind == 'none':
            return z3.BoolVal(False)
        if t.kind == 'union':
            U = T.union_datatype()
            if cname == 'int':
                return U.is_UI(sv.z)
            if cname == 'str':
                return U.is_US(sv.z)
            if cname in self.repo.classes:
                ids = [self.repo.class_ids[c] for c in sorted(self.repo.subclasses[cname])]
                return z3.And(U.is_UR(sv.z), z3.Or([self.clsof(U.ur(sv.z)) == i for i in ids]))
            return z3.BoolVal(False)
        if t.kind == 'opt':
            inner = t.args[0]
            if inner.kind == 'ref':
                if cname not in self.repo.classes:
                    return z3.BoolVal(False)
                ids = [self.repo.class_ids[c] for c in sorted(self.repo.subclasses[cname])]
                return z3.And(sv.z != 0, z3.Or([self.clsof(sv.z) == i for i in ids]))
            dt = T.sort_of(t)
            return z3.And(dt.is_some(sv.z), self.isinstance_cond(SV(inner, dt.val(sv.z)), cname))
        if t.kind == 'ref':
            if cname not in self.repo.classes:
                return z3.BoolVal(False)
            if self.repo.is_subclass(t.args[0], cname):
                return z3.BoolVal(True)
            if not self.repo.is_subclass(cname, t.args[0]):
                return z3.BoolVal(False)
            ids = [self.repo.class_ids[c] for c in sorted(self.repo.subclasses[cname])]
            return z3.Or([self.clsof(sv.z) == i for i in ids])
        return z3.BoolVal(False)

    # ------------------------------------------------------------------ heap access
    def fkey(self, fname, ty):
        return f'f:{fname}:{T.sort_name(T.sort_of(ty))}'

    def read_field(self, st, obj, fname, cname=None):
        cname = cname or obj.ty.args[0]
        ft = self.field_type(cname, fname)
        key = self.fkey(fname, ft)
        arr = self.heap_get(st, key, z3.ArraySort(z3.IntSort(), T.sort_of(ft)))
        return SV(ft, self.select(arr, obj.z))

    def write_field(self, st, obj, fname, val, cname=None):
        cname = cname or obj.ty.args[0]
        ft = self.field_type(cname, fname)
        v = self.coerce(val, ft, f'store to {cname}.{fname}')
        key = self.fkey(fname, ft)
        arr = self.heap_get(st, key, z3.ArraySort(z3.IntSort(), T.sort_of(ft)))
        return st.setheap(key, self.store(arr, obj.z, v.z))

    def select(self, arr, idx):
        """Select with syntactic read-over-write (same index term, or distinct constants) to keep formulas small."""
        a = arr
        while z3.is_app_of(a, z3.Z3_OP_STORE):
            k = a.arg(1)
            if k.eq(idx):
                return a.arg(2)
            if z3.is_int_value(k) and z3.is_int_value(idx):
                a = a.arg(0)
                continue
            if self.distinct_refs(k, idx):
                a = a.arg(0)
                continue
            break
        if z3.is_quantifier(a) and a.is_lambda() and a.num_vars() == 1:
            return z3.substitute_vars(a.body(), idx)       # beta-reduction
        return z3.Select(a, idx)

    def distinct_refs(self, a, b):
        """Syntactic distinctness of two references: one of them is a reference freshly allocated by this
        execution, and the other is a term built only from symbols that existed before that allocation (it then
        denotes an object that already existed), or another allocation."""
        for x, y in ((a, b), (b, a)):
            nx = self.fresh_refs.get(x.get_id(), (None,))[0]
            if nx is None:
                continue
            ny = self.fresh_refs.get(y.get_id(), (None,))[0]
            if ny is not None:
                return ny != nx
            if self.newest_symbol(y) < nx:
                return True
        return False

    def newest_symbol(self, t):
        i = t.get_id()
        c = self._newest_cache.get(i)
        if c is not None:
            return c[0]
        best = 0
        if z3.is_const(t) and t.decl().kind() == z3.Z3_OP_UNINTERPRETED:
            nm = t.decl().name()
            if '!' in nm:
                try:
                    best = int(nm.rsplit('!', 1)[1].lstrip('q') or 0)
                except ValueError:
                    best = 10 ** 9
        elif z3.is_app(t):
            for ch in t.children():
                best = max(best, self.newest_symbol(ch))
        elif z3.is_quantifier(t):
            best = 10 ** 9
        self._newest_cache[i] = (best, t)       # the term is kept alive: z3 reuses the ids of collected ASTs
        return best

    def store(self, arr, idx, val):
        if z3.is_app_of(arr, z3.Z3_OP_STORE) and arr.arg(1).eq(idx):
            arr = arr.arg(0)
        if val.sort() == z3.IntSort() and not z3.is_int_value(val):
            v2 = z3.simplify(val)
            if z3.is_int_value(v2):
                val = v2
        return z3.Store(arr, idx, val)

    # lists are heap objects whose content is a pair (length, Array Int -> E): two heap components
    def lkey(self, ety, lty=None):
        return f'larr:{T.sort_name(T.sort_of(ety))}'

    def lkey_of(self, lty):
        # bytes / bytearray / list[int] are distinct Python types, hence disjoint sets of objects:
        # one heap component per static list type
        mark = lty.args[1] if len(lty.args) > 1 else ''
        return f'larr:{T.sort_name(T.sort_of(lty.args[0]))}' + (':' + mark if mark else '')

    def lsort(self, ety):
        return z3.ArraySort(z3.IntSort(), z3.ArraySort(z3.IntSort(), T.sort_of(ety)))

    def lenkey_of(self, lty):
        return 'llen' + self.lkey_of(lty)[4:]

    def list_len(self, st, lsv):
        return self.select(self.heap_get(st, self.lenkey_of(lsv.ty), z3.ArraySort(z3.IntSort(), z3.IntSort())), lsv.z)

    def list_arr(self, st, lsv):
        ety = lsv.ty.args[0]
        return self.select(self.heap_get(st, self.lkey_of(lsv.ty), self.lsort(ety)), lsv.z)

    def list_at(self, st, lsv, i):
        return self.select(self.list_arr(st, lsv), i)

    def set_list(self, st, lsv, n, arr):
        ety = lsv.ty.args[0]
        lk = self.lenkey_of(lsv.ty)
        lh = self.heap_get(st, lk, z3.ArraySort(z3.IntSort(), z3.IntSort()))
        st = st.setheap(lk, self.store(lh, lsv.z, n))
        ah = self.heap_get(st, self.lkey_of(lsv.ty), self.lsort(ety))
        return st.setheap(self.lkey_of(lsv.ty), self.store(ah, lsv.z, arr))

    def new_list(self, st, lty, n, arr, hint='lst'):
        s2, r = self.alloc(st, lty, hint)
        return self.set_list(s2, r, n, arr), r

    def seq_view(self, st, v):
        """(length, element-at function) of a list (heap) or an immutable seq value"""
        if v.ty.kind == 'list':
            a = self.list_arr(st, v)
            return self.list_len(st, v), (lambda i: self.select(a, i))
        if v.ty.kind in ('seq',):
            return z3.Length(v.z), (lambda i: v.z[i])
        if v.ty.kind == 'cfg':
            it = self.uf('cfg_item', z3.IntSort(), z3.IntSort(), z3.IntSort())
            return self.uf('cfg_len', z3.IntSort(), z3.IntSort())(v.z), (lambda i: it(v.z, i))
        raise VCError(f'not a sequence: {v.ty!r}')

    def empty_arr(self, ety):
        return z3.K(z3.IntSort(), self.default_of(ety))

    def default_of(self, ty):
        srt = T.sort_of(ty)
        if srt == z3.IntSort():
            return I(0)
        if srt == z3.BoolSort():
            return z3.BoolVal(False)
        if srt == z3.StringSort():
            return z3.StringVal('')
        return z3.Const('dflt_' + T.sort_name(srt), srt)

    def dkeys(self, dty):
        k, v = dty.args
        ks, vs = T.sort_of(k), T.sort_of(v)
        return (f'dom:{T.sort_name(ks)}', z3.ArraySort(z3.IntSort(), z3.ArraySort(ks, z3.BoolSort())),
                f'val:{T.sort_name(ks)}:{T.sort_name(vs)}', z3.ArraySort(z3.IntSort(), z3.ArraySort(ks, vs)))

    def dict_dom(self, st, d):
        dk, ds, vk, vs = self.dkeys(d.ty)
        return self.select(self.heap_get(st, dk, ds), d.z)

    def dict_val(self, st, d):
        dk, ds, vk, vs = self.dkeys(d.ty)
        return self.select(self.heap_get(st, vk, vs), d.z)

    def skey(self, ety):
        s = T.sort_of(ety)
        return f'set:{T.sort_name(s)}', z3.ArraySort(z3.IntSort(), z3.ArraySort(s, z3.BoolSort()))

    def set_content(self, st, s):
        k, srt = self.skey(s.ty.args[0])
        return self.select(self.heap_get(st, k, srt), s.z)

    def alloc(self, st, ty, hint='obj'):
        """Fresh reference, distinct from every reference allocated so far."""
        r = self.fresh_z(z3.IntSort(), hint)
        self.fresh_refs[r.get_id()] = (self.counter, r)     # (the term is kept alive: ids of collected ASTs are reused)
        al = self.heap_get(st, 'alloc', z3.ArraySort(z3.IntSort(), z3.BoolSort()))
        st = st.assume(r > 0, z3.Not(z3.Select(al, r)))
        st = st.setheap('alloc', z3.Store(al, r, z3.BoolVal(True)))
        if ty.kind == 'ref':
            st = st.assume(self.clsof(r) == self.repo.class_ids[ty.args[0]])
        return st, SV(ty, r)

    def assume_allocated(self, st, sv):
        if sv.z is None or not (T.is_reflike(sv.ty) or (sv.ty.kind == 'opt' and T.is_reflike(sv.ty.args[0]))):
            return st
        al = self.heap_get(st, 'alloc', z3.ArraySort(z3.IntSort(), z3.BoolSort()))
        if sv.ty.kind == 'opt':
            return st.assume(z3.Or(sv.z == 0, z3.Select(al, sv.z)))
        return st.assume(z3.Select(al, sv.z))

    # ------------------------------------------------------------------ raising
    def permitted(self, st, kind):
        for h in st.handlers:
            for hk in h:
                if exc_matches(kind, hk):
                    return True
        return False

    def do_raise(self, st, cx, kind, node, why=''):
        """An exception of `kind` is raised in state st."""
        if cx.spec:
            return []
        if self.permitted(st, kind):
            return [('raise', st, kind)]
        self.oblige(st, self.site(cx, node, f'no-{kind}'), z3.BoolVal(False), kind='absence',
                    info=dict(why=why))
        return []

    def guard_raise(self, st, cx, cond_raise, kind, node, k, why=''):
        """If cond_raise holds the exception is raised, otherwise continue with k(st')."""
        c = z3.simplify(cond_raise)
        if z3.is_false(c):
            return k(st)
        if cx.spec:
            return k(st)
        outs = []
        if self.permitted(st, kind):
            if self.feasible(st, c):
                outs.append(('raise', st.assume(c), kind))
        else:
            self.oblige(st, self.site(cx, node, f'no-{kind}'), z3.Not(c), kind='absence', info=dict(why=why))
        if z3.is_true(c):
            return outs
        return outs + k(st.assume(z3.Not(c)))

    # ------------------------------------------------------------------ names
    def resolve_global(self, cx, name):
        """('const', ast) | ('class', ClassInfo) | ('func', FuncInfo) | ('module', name) | None"""
        mod = cx.module
        seen = set()
        while mod is not None and (mod, name) not in seen:
            seen.add((mod, name))
            m = self.repo.modules.get(mod)
            if m is None:
                return ('module', name) if name in ('sys', 'math', 'os', 're', 'operator', 'click', 'binascii') else None
            if name in m['funcs']:
                return ('func', m['funcs'][name])
            if name in m['consts']:
                return ('const', m['consts'][name], mod)
            if name in self.repo.classes and self.repo.classes[name].module == mod:
                return ('class', self.repo.classes[name])
            if name in m['imports']:
                tmod, tname = m['imports'][name]
                if tname is None:
                    return ('module', tmod)
                if tmod in self.repo.modules:
                    mod, name = tmod, tname
                    continue
                return ('extern', tmod, tname)
            break
        if name in self.repo.classes:
            return ('class', self.repo.classes[name])
        return None

    # ------------------------------------------------------------------ expressions (CPS)
    def ev_list(self, st, es, cx, k):
        def go(st, i, acc):
            if i == len(es):
                return k(st, acc)
            return self.ev(st, es[i], cx, lambda s, v: go(s, i + 1, acc + [v]))
        return go(st, 0, [])

    def pure(self, st, e, cx):
        """Direct-style evaluation of an expression that cannot fork."""
        box = []

        def k(s, v):
            box.append((s, v))
            return []
        self.ev(st, e, cx, k)
        if len(box) != 1:
            raise VCError(f'expression forks or raises where a pure one is required: {ast.unparse(e)}')
        s1, v = box[0]
        if not cx.spec and (s1.pc is not st.pc and len(s1.pc) != len(st.pc) or s1.heap is not st.heap and s1.heap != st.heap):
            raise NotPure()
        return v

    def is_simple_pure(self, e, cx):
        for n in ast.walk(e):
            if isinstance(n, ast.Call):
                f = n.func
                if isinstance(f, ast.Name) and f.id in ('len', 'isinstance', 'abs', 'min', 'max', 'int'):
                    continue
                if cx.spec:
                    continue
                return False
            if isinstance(n, (ast.Subscript, ast.Div, ast.FloorDiv, ast.Mod, ast.ListComp, ast.DictComp,
                              ast.SetComp, ast.GeneratorExp, ast.Lambda, ast.JoinedStr)) and not cx.spec:
                return False
        return True

    def ev(self, st, e, cx, k):
        m = getattr(self, 'ev_' + type(e).__name__, None)
        if m is None:
            raise VCError(f'expression form {type(e).__name__} outside subset: {ast.unparse(e)}')
        return m(st, e, cx, k)

    def ev_Constant(self, st, e, cx, k):
        v = e.value
        if v is None:
            return k(st, NONE_SV)
        if isinstance(v, bool):
            return k(st, SV(BOOL, z3.BoolVal(v)))
        if isinstance(v, int):
            return k(st, SV(INT, I(v)))
        if isinstance(v, str):
            return k(st, SV(STR, z3.StringVal(v)))
        if isinstance(v, bytes):
            arr = self.empty_arr(INT)
            for i_, b in enumerate(v):
                arr = z3.Store(arr, I(i_), I(b))
            s2, r = self.new_list(st, T.BYTES, I(len(v)), arr, 'bytes')
            return k(s2, r)
        if isinstance(v, float):
            return k(st, SV(FLOAT, z3.RealVal(v)))
        raise VCError(f'constant {v!r} outside subset')

    def ev_JoinedStr(self, st, e, cx, k):
        # an f-string whose pieces are all strings (constants, module constants, string locals, re.escape(..)) is their
        # concatenation; anything else is message text only: an opaque fresh string (rendering assumed total, effect-free)
        parts = []
        try:
            for v in e.values:
                if isinstance(v, ast.Constant) and isinstance(v.value, str):
                    parts.append(z3.StringVal(v.value))
                elif isinstance(v, ast.FormattedValue) and v.format_spec is None and v.conversion == -1 \
                        and isinstance(v.value, (ast.Name, ast.Call)) and not cx.spec:
                    if isinstance(v.value, ast.Call) and ast.unparse(v.value.func) != 're.escape':
                        raise NotPure()
                    sv = self.pure(st, v.value, cx)
                    if sv.ty.kind != 'str':
                        raise NotPure()
                    parts.append(sv.z)
                elif isinstance(v, ast.FormattedValue) and v.conversion == -1 and isinstance(v.value, ast.Name) \
                        and isinstance(v.format_spec, ast.JoinedStr) and len(v.format_spec.values) == 1 \
                        and isinstance(v.format_spec.values[0], ast.Constant) and v.format_spec.values[0].value == '02x' \
                        and not cx.spec:
                    # f'{b:02x}': a deterministic function of the integer; two characters for a byte value (CPython: '02x'
                    # pads to at least two hex digits, and 0..255 has at most two) -- a trusted fact about str.format
                    iv = self.pure(st, v.value, cx)
                    if iv.ty.kind != 'int':
                        raise NotPure()
                    hx = self.uf('fmt_02x', z3.IntSort(), z3.StringSort())(iv.z)
                    st = st.assume(z3.Implies(z3.And(iv.z >= 0, iv.z < 256), z3.Length(hx) == 2))
                    parts.append(hx)
                else:
                    raise NotPure()
        except (NotPure, VCError):
            return k(st, self.fresh(STR, 'fstr'))
        if not parts:
            return k(st, SV(STR, z3.StringVal('')))
        return k(st, SV(STR, z3.Concat(*parts) if len(parts) > 1 else parts[0]))

    def ev_Name(self, st, e, cx, k):
        nm = e.id
        if nm in st.vars:
            return k(st, st.vars[nm])
        if cx.spec and nm in cx.spec_vars:
            return k(st, cx.spec_vars[nm])
        if nm == 'True' or nm == 'False':
            return k(st, SV(BOOL, z3.BoolVal(nm == 'True')))
        if nm in self.reg.opaque_consts:
            ty = self.tenv.parse(self.reg.opaque_consts[nm])
            return k(st, SV(ty, z3.Const('CONST_' + nm, T.sort_of(ty))))
        g = self.resolve_global(cx, nm)
        if g is not None and g[0] == 'const':
            sub = Cx(None, spec=cx.spec, depth=cx.depth, root=cx.root, label=cx.label)
            sub.module = g[2]
            return self.ev(st, g[1], sub, k)
        if self.verifying_block is not None and not cx.spec and cx.fi is not None and cx.root is cx:
            # a local the block contract does not declare (the code around the block changed): it has SOME value of the
            # type its first assignment in the function gives it -- arbitrary at block entry
            kinds = []
            busy = getattr(self, '_inferring', set())
            self._inferring = busy | {nm}
            for n_ in (ast.walk(cx.fi.node) if nm not in busy else []):
                if isinstance(n_, ast.Assign) and len(n_.targets) == 1 and isinstance(n_.targets[0], ast.Name) \
                        and n_.targets[0].id == nm:
                    if isinstance(n_.value, ast.Constant) and n_.value.value is None:
                        kinds.append(T.NONE)
                        continue
                    try:
                        kinds.append(self.pure(st, n_.value, cx).ty)
                    except (VCError, NotPure):
                        # (an assignment that reads the local itself, e.g. x = lobj.address + ...: try the operands' type)
                        if isinstance(n_.value, ast.BinOp):
                            kinds.append(INT)
                        continue
            self._inferring = busy
            base = [t_ for t_ in kinds if t_.kind != 'none']
            if base and all(t_ == base[0] for t_ in base) and base[0].kind in ('int', 'bool', 'str'):
                ty = T.opt(base[0]) if len(base) < len(kinds) else base[0]
                v = SV(ty, z3.Const(f'{nm}!undeclared', T.sort_of(ty)))
                note = f'local `{nm}` is not declared by the block contract: treated as an arbitrary {ty!r} at block entry'
                if note not in self.notes:
                    self.notes.append(note)
                return k(st, v)
        raise VCError(f'name {nm} is not a local, parameter or module constant (in {cx.fi.key if cx.fi else "?"})')

    def ev_Attribute(self, st, e, cx, k):
        # Class.CONST / Enum.MEMBER / module.attr
        if isinstance(e.value, ast.Name) and e.value.id not in st.vars and e.value.id not in cx.spec_vars:
            g = self.resolve_global(cx, e.value.id)
            if g is not None and g[0] == 'class':
                ci = g[1]
                if ci.is_enum and e.attr in ci.enum_members:
                    return k(st, SV(T.enum(ci.name), I(ci.enum_members[e.attr])))
                oc, cst = self.repo.class_const(ci.name, e.attr)
                if cst is not None:
                    sub = Cx(None, spec=cx.spec, depth=cx.depth, root=cx.root, label=cx.label)
                    sub.module = oc.module
                    sub.cls = oc
                    return self.ev(st, cst, sub, k)
                raise VCError(f'class attribute {ci.name}.{e.attr} outside subset')
            if g is not None and g[0] == 'module' and g[1] == 'operator' and e.attr in OPERATOR_CODES:
                return k(st, SV(T.FN, I(OPERATOR_CODES[e.attr])))
            if g is not None and g[0] == 'module':
                raise VCError(f'module attribute {ast.unparse(e)} outside subset')
        # nested class reference LabelScope.LabelInfo handled in calls
        if isinstance(e.value, ast.Name) and e.value.id == 'cls' and cx.fi is not None and cx.fi.kind == 'classmethod' \
                and cx.cls is not None:
            # cls.CONST inside a classmethod: read as the defining class's constant (subclasses do not rebind them here)
            oc, cst = self.repo.class_const(cx.cls.name, e.attr)
            if cst is not None:
                sub = Cx(None, spec=cx.spec, depth=cx.depth, root=cx.root, label=cx.label)
                sub.module = oc.module
                sub.cls = oc
                return self.ev(st, cst, sub, k)

        def with_obj(st, obj):
            return self.get_attr(st, obj, e.attr, cx, e, k)
        return self.ev(st, e.value, cx, with_obj)

    def get_attr(self, st, obj, attr, cx, node, k):
        t = obj.ty
        if t.kind == 'opt' and t.args[0].kind == 'ref':
            # dereferencing None raises AttributeError
            inner = SV(t.args[0], obj.z)
            return self.guard_raise(st, cx, obj.z == 0, 'AttributeError', node,
                                    lambda s: self.get_attr(s, inner, attr, cx, node, k),
                                    why=f'{ast.unparse(node)}: receiver may be None')
        if t.kind == 'none':
            return self.do_raise(st, cx, 'AttributeError', node, why='attribute of None')
        if t.kind == 'union':
            if not t.args:
                raise VCError(f'attribute of an untyped union value: {ast.unparse(node)}')
            U = T.union_datatype()
            inner = SV(T.ref(t.args[0]), U.ur(obj.z))
            return self.guard_raise(st, cx, z3.Not(self.isinstance_cond(obj, t.args[0])), 'AttributeError', node,
                                    lambda s: self.get_attr(s, inner, attr, cx, node, k), why='attribute of a non-object')
        if t.kind == 'enum':
            if attr == 'value':
                return k(st, SV(INT, obj.z))
            ci, fi = self.repo.find_getter(t.args[0], attr)
            if fi is not None:
                return self.call_function(st, fi, [obj], {}, cx, node, k)
            raise VCError(f'enum attribute {attr} outside subset')
        if t.kind == 'ref':
            cname = t.args[0]
            ci, fi = self.repo.find_getter(cname, attr)
            if fi is not None:
                ov = self.repo.overrides(cname, attr)
                if ov:
                    return self.dispatch(st, obj, attr, [], {}, cx, node, k, getter=True)
                return self.call_function(st, fi, [obj], {}, cx, node, k)
            # a getter defined only in subclasses?
            ov = self.repo.overrides(cname, attr)
            if ov:
                return self.dispatch(st, obj, attr, [], {}, cx, node, k, getter=True)
            v = self.read_field(st, obj, attr)
            if not cx.spec:
                for fact in self.type_facts(v):
                    if not any(fact.eq(p_) for p_ in st.pc[-12:]):
                        st = st.assume(fact)
            return k(st, v)
        if t.kind == 'tuple' and attr.startswith('f') and attr[1:].isdigit():
            dt = T.sort_of(t)
            i = int(attr[1:])
            return k(st, SV(t.args[i], dt.accessor(0, i)(obj.z)))
        raise VCError(f'attribute {attr} of {t!r} outside subset: {ast.unparse(node)}')

    def ev_UnaryOp(self, st, e, cx, k):
        def f(st, v):
            if isinstance(e.op, ast.Not):
                return k(st, SV(BOOL, z3.Not(self.truth(st, v))))
            if isinstance(e.op, ast.USub):
                if v.ty.kind == 'float':
                    return k(st, SV(FLOAT, -v.z))
                return k(st, SV(INT, -self.coerce(v, INT).z))
            if isinstance(e.op, ast.UAdd):
                return k(st, v)
            if isinstance(e.op, ast.Invert) and v.ty.kind in ('int', 'bool'):
                return k(st, SV(INT, -self.coerce(v, INT).z - 1))          # ~x == -x - 1 on Python's unbounded ints
            raise VCError(f'unary operator outside subset: {ast.unparse(e)}')
        return self.ev(st, e.operand, cx, f)

    def truth(self, st, v):
        t = v.ty
        if t.kind == 'list':
            return self.list_len(st, v) > 0
        if t.kind == 'opt' and t.args[0].kind == 'list':
            return z3.And(v.z != 0, self.list_len(st, SV(t.args[0], v.z)) > 0)
        if t.kind in ('dict', 'set'):
            raise VCError('truthiness of dict/set outside subset')
        return truthy(v)

    def ev_BoolOp(self, st, e, cx, k):
        is_and = isinstance(e.op, ast.And)
        vals = None
        if all(self.is_simple_pure(v, cx) for v in e.values):
            # no forking: evaluate operand i under the guard that operands < i did not short-circuit
            guards0 = st.guards
            nobs = len(self.obs)
            try:
                vals = []
                s = st
                for v in e.values:
                    sv = self.pure(s, v, cx)
                    vals.append(sv)
                    tv = self.truth(s, sv)
                    g_ = tv if is_and else z3.Not(tv)
                    if v is not e.values[-1] and sv.ty.kind == 'bool' and isinstance(v, ast.Call) and isinstance(v.func, ast.Name) \
                            and v.func.id == 'isinstance' and not self.feasible(s.assume(*s.guards), g_):
                        # the remaining operands are never evaluated on this path: the result is decided already
                        break
                    s = s.copy(guards=s.guards + (g_,))
                    if is_and:
                        s = self.narrow(s, v, True)
            except NotPure:
                vals = None
                del self.obs[nobs:]
            except VCError as err_:
                if 'expression forks or raises' not in str(err_):
                    raise
                vals = None                      # an operand dispatches / may raise: use the forking evaluation below
                del self.obs[nobs:]
        if vals is not None:
            if all(v.ty.kind == 'bool' for v in vals):
                zs = [v.z for v in vals]
                return k(st.copy(guards=guards0), SV(BOOL, z3.And(zs) if is_and else z3.Or(zs)))
            # value-returning and/or: result is the deciding operand
            if len({T.sort_name(T.sort_of(v.ty)) if v.ty.kind != 'none' else 'none' for v in vals}) == 1 \
                    and vals[0].ty.kind != 'none':
                res = vals[-1].z
                for v in reversed(vals[:-1]):
                    tv = self.truth(st, v)
                    res = z3.If(tv, res, v.z) if is_and else z3.If(tv, v.z, res)
                return k(st.copy(guards=guards0), SV(vals[0].ty, res))
        # forking evaluation (exact short-circuit semantics)

        def go(st, i):
            def f(st, v):
                if i == len(e.values) - 1:
                    return k(st, v)
                tv = self.truth(st, v)
                outs = []
                cont, stop = (tv, z3.Not(tv)) if is_and else (z3.Not(tv), tv)
                if self.feasible(st, stop):
                    outs += k(st.assume(stop), v)
                if self.feasible(st, cont):
                    outs += go(st.assume(cont), i + 1)
                return outs
            return self.ev(st, e.values[i], cx, f)
        return go(st, 0)

    def narrow(self, st, test, positive):
        """flow-sensitive narrowing for `x is None` / `x is not None` tests on a local name"""
        # isinstance(x, C) on a local name: in the positive branch x has static class C
        if positive and isinstance(test, ast.Call) and isinstance(test.func, ast.Name) and test.func.id == 'isinstance' \
                and len(test.args) == 2 and isinstance(test.args[0], ast.Name) and isinstance(test.args[1], ast.Name) \
                and test.args[0].id in st.vars and test.args[1].id in self.repo.classes:
            v = st.vars[test.args[0].id]
            cn = test.args[1].id
            base = v.ty.args[0] if v.ty.kind == 'opt' else v.ty
            if base.kind == 'ref' and self.repo.is_subclass(cn, base.args[0]) and cn != base.args[0]:
                return st.setvar(test.args[0].id, SV(T.ref(cn), v.z))
        if isinstance(test, ast.BoolOp) and isinstance(test.op, ast.And) and positive:
            for sub in test.values:
                st = self.narrow(st, sub, True)
            return st
        if isinstance(test, ast.Compare) and len(test.ops) == 1 and isinstance(test.left, ast.Name) \
                and isinstance(test.comparators[0], ast.Constant) and test.comparators[0].value is None \
                and isinstance(test.ops[0], (ast.Is, ast.IsNot)) and test.left.id in st.vars:
            is_none_branch = isinstance(test.ops[0], ast.Is) == positive
            v = st.vars[test.left.id]
            if v.ty.kind == 'opt' and not is_none_branch:
                if T.is_reflike(v.ty.args[0]):
                    return st.setvar(test.left.id, SV(v.ty.args[0], v.z))
                return st.setvar(test.left.id, SV(v.ty.args[0], T.sort_of(v.ty).val(v.z)))
        return st

    def ev_IfExp(self, st, e, cx, k):
        def f(st, c):
            tv = self.truth(st, c)
            ab = None
            st_t, st_f = self.narrow(st, e.test, True), self.narrow(st, e.test, False)
            if cx.spec or (self.is_simple_pure(e.body, cx) and self.is_simple_pure(e.orelse, cx)):
                nobs = len(self.obs)
                try:
                    ab = (self.pure(st_t.copy(guards=st.guards + (tv,)), e.body, cx),
                          self.pure(st_f.copy(guards=st.guards + (z3.Not(tv),)), e.orelse, cx))
                except NotPure:
                    ab = None
                    del self.obs[nobs:]
            if ab is not None:
                a, b = ab
                if a.ty == b.ty and a.ty.kind != 'none':
                    return k(st, SV(a.ty, z3.If(tv, a.z, b.z)))
                if a.ty.kind == 'none' and b.ty.kind == 'none':
                    return k(st, NONE_SV)
                # unify through optional
                tt = T.opt(a.ty if a.ty.kind != 'none' else b.ty)
                try:
                    a2, b2 = self.coerce(a, tt), self.coerce(b, tt)
                    return k(st, SV(tt, z3.If(tv, a2.z, b2.z)))
                except VCError:
                    pass
            outs = []
            if self.feasible(st, tv):
                outs += self.ev(st_t.assume(tv), e.body, cx, lambda s_, v_: k(s_.copy(vars=dict(s_.vars, **{n_: st.vars[n_] for n_ in st.vars if n_ in s_.vars and s_.vars[n_] is st_t.vars.get(n_) and st_t.vars.get(n_) is not st.vars[n_]})), v_))
            if self.feasible(st, z3.Not(tv)):
                outs += self.ev(st_f.assume(z3.Not(tv)), e.orelse, cx, lambda s_, v_: k(s_.copy(vars=dict(s_.vars, **{n_: st.vars[n_] for n_ in st.vars if n_ in s_.vars and s_.vars[n_] is st_f.vars.get(n_) and st_f.vars.get(n_) is not st.vars[n_]})), v_))
            return outs
        return self.ev(st, e.test, cx, f)

    def ev_Compare(self, st, e, cx, k):
        operands = [e.left] + list(e.comparators)
        # literal collection on the right of in / not in: disjunction of equalities
        if len(e.ops) == 1 and isinstance(e.ops[0], (ast.In, ast.NotIn)) \
                and isinstance(e.comparators[0], (ast.List, ast.Tuple, ast.Set)):
            def f(st, vs):
                x = vs[0]
                eqs = [self.eq(st, x, y) for y in vs[1:]]
                r = z3.Or(eqs) if eqs else z3.BoolVal(False)
                if isinstance(e.ops[0], ast.NotIn):
                    r = z3.Not(r)
                return k(st, SV(BOOL, r))
            return self.ev_list(st, [e.left] + list(e.comparators[0].elts), cx, f)

        # x in range(a, b) / range(b): a <= x < b for an integer x
        if len(e.ops) == 1 and isinstance(e.ops[0], (ast.In, ast.NotIn)) and isinstance(e.comparators[0], ast.Call) \
                and isinstance(e.comparators[0].func, ast.Name) and e.comparators[0].func.id == 'range' \
                and 1 <= len(e.comparators[0].args) <= 2 and not e.comparators[0].keywords:
            def frange(st, vs):
                x = self.coerce(vs[0], INT).z
                bs = [self.coerce(v, INT).z for v in vs[1:]]
                lo, hi = (z3.IntVal(0), bs[0]) if len(bs) == 1 else (bs[0], bs[1])
                r = z3.And(lo <= x, x < hi)
                return k(st, SV(BOOL, z3.Not(r) if isinstance(e.ops[0], ast.NotIn) else r))
            return self.ev_list(st, [e.left] + list(e.comparators[0].args), cx, frange)

        def f(st, vs):
            cont_ = vs[1]
            if cont_.ty.kind == 'opt' and cont_.ty.args[0].kind == 'ref':
                cont_ = SV(cont_.ty.args[0], cont_.z)       # (None on the right of `in` is a TypeError; not modelled apart)
            if len(e.ops) == 1 and isinstance(e.ops[0], (ast.In, ast.NotIn)) and cont_.ty.kind == 'ref' and not cx.spec:
                # x in obj  for an object of a repository class: its __contains__
                vs = [vs[0], cont_]
                ci_, fi_ = self.repo.find_method(vs[1].ty.args[0], '__contains__')
                if fi_ is not None:
                    neg = isinstance(e.ops[0], ast.NotIn)
                    return self.call_function(st, fi_, [vs[1], vs[0]], {}, cx, e,
                                              lambda s_, r_: k(s_, SV(BOOL, z3.Not(self.truth(s_, r_)) if neg else self.truth(s_, r_))))
            if len(e.ops) == 1 and isinstance(e.ops[0], (ast.Eq, ast.NotEq)) and not cx.spec \
                    and vs[0].ty.kind == 'ref' and vs[1].ty.kind == 'ref':
                # a == b on objects of a repository class that defines __eq__: that method decides
                ci_, fi_ = self.repo.find_method(vs[0].ty.args[0], '__eq__')
                if fi_ is not None:
                    neg = isinstance(e.ops[0], ast.NotEq)
                    return self.call_function(st, fi_, [vs[0], vs[1]], {}, cx, e,
                                              lambda s_, r_: k(s_, SV(BOOL, z3.Not(self.truth(s_, r_)) if neg else self.truth(s_, r_))))
            conds = []
            for i, op in enumerate(e.ops):
                conds.append(self.compare(st, op, vs[i], vs[i + 1], cx, e))
            return k(st, SV(BOOL, z3.And(conds) if len(conds) > 1 else conds[0]))
        return self.ev_list(st, operands, cx, f)

    def eq(self, st, a, b):
        ta, tb = a.ty, b.ty
        if ta.kind == 'none' and tb.kind == 'none':
            return z3.BoolVal(True)
        if ta.kind == 'none':
            return self.eq(st, b, a)
        if tb.kind == 'none':
            if ta.kind == 'union':
                return T.union_datatype().is_UN(a.z)
            if ta.kind == 'opt':
                if T.is_reflike(ta.args[0]):
                    return a.z == 0
                return T.sort_of(ta).is_none(a.z)
            return z3.BoolVal(False)
        if ta.kind == 'opt' and tb.kind != 'opt':
            if T.is_reflike(ta.args[0]):
                return a.z == self.coerce(b, ta).z
            dt = T.sort_of(ta)
            return z3.And(dt.is_some(a.z), self.eq(st, SV(ta.args[0], dt.val(a.z)), b))
        if tb.kind == 'opt' and ta.kind != 'opt':
            return self.eq(st, b, a)
        if ta.kind == 'version' and tb.kind == 'version':
            return a.z == b.z
        if ta.kind == 'union' or tb.kind == 'union':
            U = T.union_datatype()
            if ta.kind != 'union':
                a, b, ta, tb = b, a, tb, ta
            if tb.kind == 'union':
                return a.z == b.z
            if tb.kind in ('int', 'bool'):
                return z3.And(U.is_UI(a.z), U.ui(a.z) == self.coerce(b, INT).z)
            if tb.kind == 'str':
                return z3.And(U.is_US(a.z), U.us(a.z) == b.z)
            if tb.kind == 'none':
                return U.is_UN(a.z)
            if T.is_reflike(tb):
                return z3.And(U.is_UR(a.z), U.ur(a.z) == b.z)
            return z3.BoolVal(False)
        if ta.kind == 'cfg' and tb.kind in ('int', 'str', 'bool'):
            return self.coerce(a, tb).z == b.z
        if tb.kind == 'cfg' and ta.kind in ('int', 'str', 'bool'):
            return self.coerce(b, ta).z == a.z
        if ta.kind == 'bool' and tb.kind == 'bool':
            return a.z == b.z
        if ta.kind in ('int', 'bool', 'enum') and tb.kind in ('int', 'bool', 'enum'):
            if (ta.kind == 'enum') != (tb.kind == 'enum') :
                # Enum members never equal plain ints
                return z3.BoolVal(False)
            return self.coerce(a, INT).z == self.coerce(b, INT).z
        if ta.kind == 'float' or tb.kind == 'float':
            return self.coerce(a, FLOAT).z == self.coerce(b, FLOAT).z
        if ta.kind == 'list' and tb.kind == 'list':
            j = z3.Int('j!leq')
            n = self.list_len(st, a)
            aa, bb = self.list_arr(st, a), self.list_arr(st, b)
            return z3.And(n == self.list_len(st, b),
                          z3.ForAll([j], z3.Implies(z3.And(j >= 0, j < n), z3.Select(aa, j) == z3.Select(bb, j))))
        if ta.kind == 'ref' and tb.kind == 'ref':
            # reference identity unless the class defines __eq__ (then outside subset)
            for c in (ta.args[0], tb.args[0]):
                ci, fi = self.repo.find_method(c, '__eq__')
                if fi is not None:
                    raise VCError(f'== on {c} uses a user-defined __eq__ (outside subset)')
            return a.z == b.z
        if T.sort_of(ta) == T.sort_of(tb):
            return a.z == b.z
        if {ta.kind, tb.kind} <= {'str', 'int', 'bool', 'enum', 'seq'}:
            return z3.BoolVal(False)
        raise VCError(f'== between {ta!r} and {tb!r} outside subset')

    def compare(self, st, op, a, b, cx, node):
        if isinstance(op, ast.Eq):
            return self.eq(st, a, b)
        if isinstance(op, ast.NotEq):
            return z3.Not(self.eq(st, a, b))
        if isinstance(op, ast.Is):
            if a.ty.kind == 'none' or b.ty.kind == 'none':
                return self.eq(st, a, b)
            def rl(t):
                return T.is_reflike(t) or (t.kind == 'opt' and T.is_reflike(t.args[0]))
            if rl(a.ty) and rl(b.ty):
                return a.z == b.z        # object identity
            if a.ty.kind == 'opt' or b.ty.kind == 'opt':
                return self.eq(st, a, b)
            raise VCError('`is` on non-reference values outside subset')
        if isinstance(op, ast.IsNot):
            return z3.Not(self.compare(st, ast.Is(), a, b, cx, node))
        if isinstance(op, (ast.Lt, ast.LtE, ast.Gt, ast.GtE)):
            a2, b2 = self.unwrap_num(st, a, cx, node), self.unwrap_num(st, b, cx, node)
            if a2.ty.kind == 'version' and b2.ty.kind == 'version':
                x, y = a2.z, b2.z
                return {ast.Lt: x < y, ast.LtE: x <= y, ast.Gt: x > y, ast.GtE: x >= y}[type(op)]
            if a2.ty.kind == 'cfg' and b2.ty.kind == 'str':
                a2 = self.coerce(a2, STR)       # whatever the YAML holds there, compared as the code compares it
            if b2.ty.kind == 'cfg' and a2.ty.kind == 'str':
                b2 = self.coerce(b2, STR)
            if a2.ty.kind == 'str' and b2.ty.kind == 'str':
                if isinstance(op, ast.Lt):
                    return a2.z < b2.z
                if isinstance(op, ast.LtE):
                    return a2.z <= b2.z
                if isinstance(op, ast.Gt):
                    return b2.z < a2.z
                return b2.z <= a2.z
            if a2.ty.kind == 'float' or b2.ty.kind == 'float':
                x, y = self.coerce(a2, FLOAT).z, self.coerce(b2, FLOAT).z
            else:
                x, y = self.coerce(a2, INT).z, self.coerce(b2, INT).z
            return {ast.Lt: x < y, ast.LtE: x <= y, ast.Gt: x > y, ast.GtE: x >= y}[type(op)]
        if isinstance(op, (ast.In, ast.NotIn)):
            r = self.contains(st, b, a)
            return z3.Not(r) if isinstance(op, ast.NotIn) else r
        raise VCError(f'comparison {type(op).__name__} outside subset')

    def unwrap_num(self, st, v, cx, node):
        """int? used arithmetically: None would be a TypeError; its absence is an obligation."""
        if v.ty.kind == 'opt' and not T.is_reflike(v.ty.args[0]):
            dt = T.sort_of(v.ty)
            if not cx.spec:
                self.oblige(st, self.site(cx, node, 'no-TypeError'), dt.is_some(v.z), kind='absence',
                            info=dict(why=f'{ast.unparse(node)}: operand may be None'))
            return SV(v.ty.args[0], dt.val(v.z))
        if v.ty.kind == 'union':
            U = T.union_datatype()
            if not cx.spec:
                self.oblige(st, self.site(cx, node, 'no-TypeError'), U.is_UI(v.z), kind='absence',
                            info=dict(why=f'{ast.unparse(node)}: operand may not be an int'))
            return SV(INT, U.ui(v.z))
        if v.ty.kind == 'none':
            raise VCError(f'None used as a number: {ast.unparse(node)}')
        return v

    def contains(self, st, coll, x):
        d_ = self.as_dict_subclass(st, coll)
        if d_ is not None:
            coll = d_
        t = coll.ty
        if t.kind == 'opt' and T.is_reflike(t.args[0]):
            coll = SV(t.args[0], coll.z)
            t = coll.ty
        if t.kind == 'dict':
            return z3.Select(self.dict_dom(st, coll), self.coerce(x, t.args[0]).z)
        if t.kind == 'set':
            return z3.Select(self.set_content(st, coll), self.coerce(x, t.args[0]).z)
        if t.kind == 'cfg' and x.ty.kind == 'list' and x.ty.args[0].kind == 'str':
            # a list of strings is an element of a configured list of lists iff some entry has the same length and
            # the same strings in the same order (Python list equality)
            n_ = self.uf('cfg_len', z3.IntSort(), z3.IntSort())
            it_ = self.uf('cfg_item', z3.IntSort(), z3.IntSort(), z3.IntSort())
            k_, j_ = z3.Int('k!lin'), z3.Int('j!lin')
            xl, xa = self.list_len(st, x), self.list_arr(st, x)
            ent = it_(coll.z, k_)
            same = z3.ForAll([j_], z3.Implies(z3.And(j_ >= 0, j_ < xl),
                                              self.coerce(SV(T.CFG, it_(ent, j_)), STR).z == z3.Select(xa, j_)))
            return z3.Exists([k_], z3.And(k_ >= 0, k_ < n_(coll.z), n_(ent) == xl, same))
        if t.kind == 'cfg':
            if x.ty.kind != 'str':
                raise VCError('`in` on a configuration node with a non-string key')
            return self.uf('cfg_has', z3.IntSort(), z3.StringSort(), z3.BoolSort())(coll.z, x.z)
        if t.kind == 'mset':
            return z3.Select(coll.z, self.coerce(x, t.args[0]).z)
        if t.kind == 'map':
            raise VCError('`in` on a math map needs its domain (use a dict)')
        if t.kind == 'list':
            j = z3.Int('j!in')
            return z3.Exists([j], z3.And(j >= 0, j < self.list_len(st, coll),
                                         z3.Select(self.list_arr(st, coll), j) == self.coerce(x, t.args[0]).z))
        if t.kind == 'seq':
            return z3.Contains(coll.z, z3.Unit(self.coerce(x, t.args[0]).z))
        if t.kind == 'str':
            return z3.Contains(coll.z, x.z)
        raise VCError(f'`in` on {t!r} outside subset')

    # arithmetic ---------------------------------------------------------------
    def pow2(self, kz):
        kz = z3.simplify(kz)
        if z3.is_int_value(kz):
            return I(2 ** kz.as_long()) if kz.as_long() >= 0 else None
        return self.bi.pow2(kz)

    def ev_BinOp(self, st, e, cx, k):
        # math.ceil(a / b) and int(a / b) are matched in ev_Call; here plain operators
        def f(st, vs):
            a, b = vs
            return self.binop(st, e.op, a, b, cx, e, k)
        return self.ev_list(st, [e.left, e.right], cx, f)

    def binop(self, st, op, a, b, cx, node, k):
        ta, tb = a.ty, b.ty
        # sequence / string / list operators
        if isinstance(op, ast.Add):
            # str? + str (a row being filled that may still be None): None + str is a TypeError, its absence an obligation
            if (ta.kind == 'opt' and ta.args[0].kind == 'str' and tb.kind in ('str', 'opt')) \
                    or (tb.kind == 'opt' and tb.args[0].kind == 'str' and ta.kind in ('str', 'opt')):
                a = self.unwrap_num(st, a, cx, node)
                b = self.unwrap_num(st, b, cx, node)
                ta, tb = a.ty, b.ty
            if ta.kind == 'str' and tb.kind == 'str':
                return k(st, SV(STR, z3.Concat(a.z, b.z)))
            if ta.kind == 'seq' and tb.kind == 'seq':
                return k(st, SV(ta, z3.Concat(a.z, b.z)))
            if ta.kind == 'list' and tb.kind == 'list':
                n1, n2 = self.list_len(st, a), self.list_len(st, b)
                a1, a2 = self.list_arr(st, a), self.list_arr(st, b)
                j = z3.Int('j!cat')
                # the concatenation is a NAMED array with its pointwise definition (an instantiable axiom): as an argument
                # of a spec function it is then one symbol, not a lambda term that simplification may rewrite
                self.counter += 1
                cat = z3.Const(f'cat!{self.counter}', a1.sort())
                jq = z3.Int('j!catq')
                st = st.assume(z3.ForAll([jq], z3.Select(cat, jq) == z3.If(jq < n1, self.select(a1, jq), self.select(a2, jq - n1)),
                                         patterns=[z3.Select(cat, jq)]))
                s2, r = self.new_list(st, ta, n1 + n2, cat)
                return k(s2, r)
        if isinstance(op, ast.Mult) and {ta.kind, tb.kind} == {'str', 'int'}:
            # text * n: an (uninterpreted, deterministic) string; only ever written out
            s_, n_ = (a, b) if ta.kind == 'str' else (b, a)
            return k(st, SV(STR, self.uf('str_repeat', z3.StringSort(), z3.IntSort(), z3.StringSort())(s_.z, n_.z)))
        if isinstance(op, ast.Mult) and (ta.kind == 'list' or tb.kind == 'list'):
            return self.bi.list_repeat(st, a, b, cx, node, k)
        if isinstance(op, ast.Mod) and ta.kind == 'str':
            return k(st, self.fresh(STR, 'fmt'))
        a = self.unwrap_num(st, a, cx, node)
        b = self.unwrap_num(st, b, cx, node)
        if a.ty.kind == 'float' or b.ty.kind == 'float' or isinstance(op, ast.Div):
            return self.bi.float_binop(st, op, a, b, cx, node, k)
        # a configuration value used as a number in arithmetic with a number (sizes, bounds): its integer reading
        if a.ty.kind == 'cfg' and b.ty.kind in ('int', 'bool'):
            a = self.coerce(a, INT)
        if b.ty.kind == 'cfg' and a.ty.kind in ('int', 'bool'):
            b = self.coerce(b, INT)
        if a.ty.kind not in ('int', 'bool') or b.ty.kind not in ('int', 'bool'):
            raise VCError(f'operator on {a.ty!r},{b.ty!r} outside subset: {ast.unparse(node)}')
        x, y = self.coerce(a, INT).z, self.coerce(b, INT).z
        if isinstance(op, ast.Add):
            return k(st, SV(INT, x + y))
        if isinstance(op, ast.Sub):
            return k(st, SV(INT, x - y))
        if isinstance(op, ast.Mult):
            if self.bi.is_pow2_term(y):
                return k(st, SV(INT, self.bi.pmul(x, y)))
            if self.bi.is_pow2_term(x):
                return k(st, SV(INT, self.bi.pmul(y, x)))
            return k(st, SV(INT, x * y))
        if isinstance(op, (ast.FloorDiv, ast.Mod)):
            def cont(s):
                ys = z3.simplify(y)
                if self.bi.is_pow2_term(y):
                    q, r = self.bi.pdiv(x, y), self.bi.pmod(x, y)
                elif (z3.is_int_value(ys) and ys.as_long() > 0) or self.known_positive(y):
                    q, r = x / y, x % y
                else:
                    # floor semantics for either sign of the divisor
                    q = z3.If(y > 0, x / y, (-x) / (-y))
                    r = x - y * q
                return k(s, SV(INT, q if isinstance(op, ast.FloorDiv) else r))
            if self.known_positive(y):
                return cont(st)
            return self.guard_raise(st, cx, y == 0, 'ZeroDivisionError', node, cont, why=ast.unparse(node))
        if isinstance(op, ast.Pow):
            xs = z3.simplify(x)
            if z3.is_int_value(xs) and xs.as_long() == 2:
                ys = z3.simplify(y)
                if z3.is_int_value(ys):
                    if ys.as_long() < 0:
                        raise VCError('negative exponent outside subset')
                    return k(st, SV(INT, I(2 ** ys.as_long())))
                if not cx.spec:
                    self.oblige(st, self.site(cx, node, 'pow-nonneg'), y >= 0, kind='absence',
                                info=dict(why='2**k with negative k yields a float'))
                return k(st, SV(INT, self.bi.pow2(y)))
            ys = z3.simplify(y)
            if z3.is_int_value(ys) and 0 <= ys.as_long() <= 8:
                r = I(1)
                for _ in range(ys.as_long()):
                    r = r * x
                return k(st, SV(INT, r))
            raise VCError(f'** outside subset: {ast.unparse(node)}')
        if isinstance(op, ast.LShift):
            return self.guard_raise(st, cx, y < 0, 'ValueError', node,
                                    lambda s: k(s, SV(INT, self.bi.shl(x, y))), why='negative shift count')
        if isinstance(op, ast.RShift):
            return self.guard_raise(st, cx, y < 0, 'ValueError', node,
                                    lambda s: k(s, SV(INT, self.bi.shr(x, y))), why='negative shift count')
        if isinstance(op, ast.BitAnd):
            return k(st, SV(INT, self.bi.band(x, y)))
        if isinstance(op, ast.BitOr):
            return k(st, SV(INT, self.bi.bor(x, y, st)))
        if isinstance(op, ast.BitXor):
            return k(st, SV(INT, self.bi.bxor(x, y)))
        raise VCError(f'operator {type(op).__name__} outside subset')

    def known_positive(self, z):
        if z3.is_int_value(z):
            return z.as_long() > 0
        if self.bi._pow2 is not None and z3.is_app(z) and z.decl().eq(self.bi._pow2):
            return True
        if z3.is_app_of(z, z3.Z3_OP_MUL):
            return all(self.known_positive(z.arg(i)) for i in range(z.num_args()))
        return False

    # subscripts ---------------------------------------------------------------
    def ev_Subscript(self, st, e, cx, k):
        if isinstance(e.slice, ast.Slice):
            return self.bi.slice(st, e, cx, k)
        # Class.TABLE[key] with TABLE a class-level dict literal of constants: read without building the dict
        # (same values, no allocation: the table is never mutated)
        v = e.value
        if isinstance(v, ast.Attribute) and isinstance(v.value, ast.Name) and v.value.id not in st.vars \
                and v.value.id not in cx.spec_vars:
            g = self.resolve_global(cx, v.value.id)
            if g is not None and g[0] == 'class':
                oc, cst = self.repo.class_const(g[1].name, v.attr)
                if isinstance(cst, ast.Dict) and cst.keys and all(isinstance(x, ast.Constant) for x in cst.keys) \
                        and all(isinstance(x, ast.Constant) and isinstance(x.value, (int, str)) and
                                not isinstance(x.value, bool) for x in cst.values) \
                        and len({type(x.value) for x in cst.values}) == 1 and len({type(x.value) for x in cst.keys}) == 1:
                    def ftab(st, key):
                        kty = STR if isinstance(cst.keys[0].value, str) else INT
                        kz = self.coerce(key, kty).z
                        mk = (lambda c_: z3.StringVal(c_)) if kty is STR else I
                        vty = STR if isinstance(cst.values[0].value, str) else INT
                        mv = (lambda c_: z3.StringVal(c_)) if vty is STR else I
                        hit = z3.Or([kz == mk(x.value) for x in cst.keys])
                        val = mv(cst.values[-1].value)
                        for kx, vx in reversed(list(zip(cst.keys, cst.values))[:-1]):
                            val = z3.If(kz == mk(kx.value), mv(vx.value), val)
                        return self.guard_raise(st, cx, z3.Not(hit), 'KeyError', e, lambda s: k(s, SV(vty, z3.simplify(val))),
                                                why=f'{ast.unparse(v)}[...]')
                    return self.ev(st, e.slice, cx, ftab)

        def f(st, vs):
            base, idx = vs
            return self.index(st, base, idx, cx, e, k)
        return self.ev_list(st, [e.value, e.slice], cx, f)

    def as_dict_subclass(self, st, v):
        """an instance of a class derived from dict is used as the dict it is: the hidden field `__dict`"""
        if v.ty.kind == 'ref' and any('dict' in self.repo.classes[c].base_names for c in self.repo.mro(v.ty.args[0])
                                      if c in self.repo.classes):
            return self.read_field(st, v, '__dict')
        return None

    def index(self, st, base, idx, cx, node, k):
        d_ = self.as_dict_subclass(st, base)
        if d_ is not None:
            base = d_
        t = base.ty
        if t.kind == 'opt' and T.is_reflike(t.args[0]):
            inner = SV(t.args[0], base.z)
            return self.guard_raise(st, cx, base.z == 0, 'TypeError', node,
                                    lambda s: self.index(s, inner, idx, cx, node, k), why='subscript of None')
        if t.kind == 'union':
            # subscript of a value that must be a string here
            U = T.union_datatype()
            return self.guard_raise(st, cx, z3.Not(U.is_US(base.z)), 'TypeError', node,
                                    lambda s: self.index(s, SV(STR, U.us(base.z)), idx, cx, node, k), why='subscript of a non-string')
        if t.kind in ('list', 'seq', 'str'):
            if t.kind == 'list':
                n = self.list_len(st, base)
            else:
                content = base.z
                n = z3.Length(content)
            i = self.coerce(idx, INT).z
            pos = z3.If(i < 0, i + n, i)
            isimp = z3.simplify(i)
            if z3.is_int_value(isimp):
                pos = i if isimp.as_long() >= 0 else i + n
            elif cx.spec or self.proves(st, i >= 0):
                pos = i     # spec sequences are indexed mathematically; otherwise i >= 0 holds on this path
            oob = z3.Or(pos < 0, pos >= n)

            def cont(s):
                if t.kind == 'str':
                    return k(s, SV(STR, z3.SubString(content, pos, 1)))
                if t.kind == 'list':
                    el = SV(t.args[0], self.list_at(s, base, pos))
                    if t in (T.BYTEARRAY, T.BYTES) and not cx.spec:
                        s = s.assume(el.z >= 0, el.z <= 255)   # type invariant of bytes/bytearray (enforced at every store)
                    return k(s, el)
                return k(s, SV(t.args[0], content[pos]))
            return self.guard_raise(st, cx, oob, 'IndexError', node, cont, why=ast.unparse(node))
        if t.kind == 'dict':
            key = self.coerce(idx, t.args[0])
            present = z3.Select(self.dict_dom(st, base), key.z)

            def cont(s):
                return k(s, SV(t.args[1], z3.Select(self.dict_val(s, base), key.z)))
            return self.guard_raise(st, cx, z3.Not(present), 'KeyError', node, cont, why=ast.unparse(node))
        if t.kind == 'cfg':
            if idx.ty.kind == 'str':
                has = self.uf('cfg_has', z3.IntSort(), z3.StringSort(), z3.BoolSort())(base.z, idx.z)
                get = self.uf('cfg_get', z3.IntSort(), z3.StringSort(), z3.IntSort())(base.z, idx.z)
                return self.guard_raise(st, cx, z3.Not(has), 'KeyError', node, lambda s: k(s, SV(CFG, get)),
                                        why=ast.unparse(node))
            i = self.coerce(idx, INT).z
            n = self.uf('cfg_len', z3.IntSort(), z3.IntSort())(base.z)
            item = self.uf('cfg_item', z3.IntSort(), z3.IntSort(), z3.IntSort())(base.z, i)
            return self.guard_raise(st, cx, z3.Or(i < 0, i >= n), 'IndexError', node, lambda s: k(s, SV(CFG, item)),
                                    why=ast.unparse(node))
        if t.kind == 'map':
            key = self.coerce(idx, t.args[0])
            return k(st, SV(t.args[1], z3.Select(base.z, key.z)))
        if t.kind == 'arr':
            iz = idx.z if idx.z is not None and idx.z.sort() == z3.IntSort() else self.coerce(idx, INT).z
            return k(st, SV(t.args[0], self.select(base.z, iz)))
        if t.kind == 'tuple':
            isimp = z3.simplify(idx.z)
            if z3.is_int_value(isimp):
                dt = T.sort_of(t)
                j = isimp.as_long()
                return k(st, SV(t.args[j], dt.accessor(0, j)(base.z)))
        raise VCError(f'subscript of {t!r} outside subset: {ast.unparse(node)}')

    # collection displays -----------------------------------------------------------
    def ev_List(self, st, e, cx, k):
        def f(st, vs):
            if not vs:
                raise VCError('empty list literal needs a declared element type (contract locals)')
            ety = vs[0].ty
            for v in vs[1:]:
                if v.ty != ety:
                    ety = self.join(ety, v.ty)
            if cx.spec:
                zs = [z3.Unit(self.coerce(v, ety).z) for v in vs]
                content = z3.Concat(*zs) if len(zs) > 1 else zs[0]
                return k(st, SV(T.seq(ety), content))
            arr = self.empty_arr(ety)
            for idx_, v in enumerate(vs):
                arr = z3.Store(arr, I(idx_), self.coerce(v, ety).z)
            s2, r = self.new_list(st, T.lst(ety), I(len(vs)), arr)
            return k(s2, r)
        return self.ev_list(st, e.elts, cx, f)

    def ev_Tuple(self, st, e, cx, k):
        def f(st, vs):
            ty = T.tup(*[v.ty for v in vs])
            dt = T.sort_of(ty)
            return k(st, SV(ty, dt.mk(*[v.z for v in vs])))
        return self.ev_list(st, e.elts, cx, f)

    def ev_Set(self, st, e, cx, k):
        def f(st, vs):
            ety = vs[0].ty
            arr = z3.K(T.sort_of(ety), z3.BoolVal(False))
            for v in vs:
                arr = z3.Store(arr, self.coerce(v, ety).z, z3.BoolVal(True))
            return k(st, SV(T.mset(ety), arr))
        return self.ev_list(st, e.elts, cx, f)

    def ev_Dict(self, st, e, cx, k):
        # module-level constant tables: immutable map with an explicit key list
        def f(st, vs):
            n = len(e.keys)
            ks, vals = vs[:n], vs[n:]
            if not ks:
                raise VCError('empty dict literal needs a declared type')
            kt, vt = ks[0].ty, vals[0].ty
            for b_ in vals[1:]:
                if b_.ty != vt:
                    vt = self.join(vt, b_.ty)
            dom = z3.K(T.sort_of(kt), z3.BoolVal(False))
            val = z3.K(T.sort_of(kt), self.fresh(vt, 'dflt').z)
            for a, b in zip(ks, vals):
                dom = z3.Store(dom, a.z, z3.BoolVal(True))
                val = z3.Store(val, a.z, self.coerce(b, vt).z)
            s2, r = self.alloc(st, T.dct(kt, vt), 'dct')
            dk, ds, vk, vs_ = self.dkeys(r.ty)
            s2 = s2.setheap(dk, z3.Store(self.heap_get(s2, dk, ds), r.z, dom))
            s2 = s2.setheap(vk, z3.Store(self.heap_get(s2, vk, vs_), r.z, val))
            return k(s2, r)
        return self.ev_list(st, list(e.keys) + list(e.values), cx, f)

    def join(self, a, b):
        if a == b:
            return a
        if a.kind == 'none':
            return T.opt(b)
        if b.kind == 'none':
            return T.opt(a)
        if a.kind == 'ref' and b.kind == 'ref':
            for c in self.repo.mro(a.args[0]):
                if self.repo.is_subclass(b.args[0], c):
                    return T.ref(c)
        if a.kind == 'opt' and b.kind != 'opt':
            return T.opt(self.join(a.args[0], b))
        if b.kind == 'opt':
            return T.opt(self.join(a if a.kind != 'opt' else a.args[0], b.args[0]))
        if {a.kind, b.kind} <= {'int', 'bool'}:
            return INT
        if {a.kind, b.kind} <= {'int', 'bool', 'float'}:
            return FLOAT
        if {a.kind, b.kind} <= {'int', 'bool', 'str', 'fn', 'union'}:
            return T.Ty('union')
        raise VCError(f'cannot join types {a!r} and {b!r}')

    def ev_Lambda(self, st, e, cx, k):
        raise VCError('lambda outside subset here')

    def ev_DictComp(self, st, e, cx, k):
        """{key(x): value(x) for x in S}  (one generator, no filter, S a set or math set): the result's domain is exactly
        the image of S under key -- stated without an existential through a choice function `pre`."""
        if len(e.generators) != 1 or e.generators[0].ifs or not isinstance(e.generators[0].target, ast.Name):
            raise VCError(f'dict comprehension form outside subset: {ast.unparse(e)}')
        g = e.generators[0]

        def f(st, S):
            if S.ty.kind == 'set':
                members = self.set_content(st, S)
                ety = S.ty.args[0]
            elif S.ty.kind == 'mset':
                members = S.z
                ety = S.ty.args[0]
            else:
                raise VCError(f'dict comprehension over {S.ty!r} outside subset')
            self.counter += 1
            x = SV(ety, z3.Const(f'{g.target.id}!dc{self.counter}', T.sort_of(ety)))
            st_x = st.setvar(g.target.id, x)
            kx = self.pure(st_x, e.key, cx)
            vx = self.pure(st_x, e.value, cx)
            dty = T.dct(kx.ty, vx.ty)
            ks, vs_ = T.sort_of(kx.ty), T.sort_of(vx.ty)
            dom = self.fresh_z(z3.ArraySort(ks, z3.BoolSort()), 'dcdom')
            val = self.fresh_z(z3.ArraySort(ks, vs_), 'dcval')
            pre = z3.Function(f'dcpre!{self.counter}', ks, T.sort_of(ety))
            y = z3.Const(f'y!dc{self.counter}', ks)
            s2 = st.assume(
                z3.ForAll([x.z], z3.Implies(z3.Select(members, x.z), z3.Select(dom, kx.z)), patterns=[z3.Select(members, x.z)]),
                z3.ForAll([y], z3.Implies(z3.Select(dom, y),
                                          z3.And(z3.Select(members, pre(y)),
                                                 z3.substitute(kx.z, (x.z, pre(y))) == y,
                                                 z3.Select(val, y) == z3.substitute(vx.z, (x.z, pre(y))))),
                          patterns=[z3.Select(dom, y)]))
            s2, r = self.alloc(s2, dty, 'dictcomp')
            dk, ds, vk, vsrt = self.dkeys(dty)
            s2 = s2.setheap(dk, z3.Store(self.heap_get(s2, dk, ds), r.z, dom))
            s2 = s2.setheap(vk, z3.Store(self.heap_get(s2, vk, vsrt), r.z, val))
            return k(s2, r)
        return self.ev(st, g.iter, cx, f)

    def ev_ListComp(self, st, e, cx, k):
        return self.bi.listcomp(st, e, cx, k)

    def ev_Call(self, st, e, cx, k):
        from .calls import ev_call
        return ev_call(self, st, e, cx, k)

    # the rest of the call machinery lives in calls.py
    def call_function(self, st, fi, args, kwargs, cx, node, k, **kw):
        from .calls import call_function
        return call_function(self, st, fi, args, kwargs, cx, node, k, **kw)

    def dispatch(self, st, obj, mname, args, kwargs, cx, node, k, getter=False):
        from .calls import dispatch
        return dispatch(self, st, obj, mname, args, kwargs, cx, node, k, getter)
