"""C14 (fails closed): mechanical audit of where the engine writes the binary image.

Re-read from the current source every run: inside Assembler.assemble_bytecode the statement that opens the output file
for binary writing must be such that nothing executed after it can abort -- every later statement (in the same block and
in the enclosing blocks) may only print.  Any other call, raise, loop or attribute protocol after the write is reported,
as is a second binary write or a write that is not guarded by the generate-binary flag alone."""
import ast

ENGINE_KEY = 'bespokeasm.assembler.engine:Assembler.assemble_bytecode'
HARMLESS_CALLS = {'print', 'echo', 'len', 'str', 'hex'}


def is_binary_open(node):
    for n in ast.walk(node):
        if isinstance(n, ast.Call) and isinstance(n.func, ast.Name) and n.func.id == 'open' and len(n.args) >= 2 \
                and isinstance(n.args[1], ast.Constant) and 'b' in str(n.args[1].value) and 'w' in str(n.args[1].value):
            return True
    return False


def may_abort(stmt):
    """conservative: anything but printing may abort"""
    for n in ast.walk(stmt):
        if isinstance(n, (ast.Raise, ast.For, ast.While, ast.Try, ast.Assert, ast.Subscript, ast.BinOp)):
            return f'{type(n).__name__} at line {getattr(n, "lineno", "?")}'
        if isinstance(n, ast.Call):
            f = n.func
            name = f.id if isinstance(f, ast.Name) else (f.attr if isinstance(f, ast.Attribute) else '?')
            if name not in HARMLESS_CALLS:
                return f'call of {name} at line {n.lineno}'
    return None


def run_audit(repo):
    fi = repo.funcs.get(ENGINE_KEY)
    sites = []
    if fi is None:
        return [dict(name='image-write/anchor', verdict='undecided', detail='Assembler.assemble_bytecode not found')]
    writes = []

    def visit(stmts, trail):
        for i, s in enumerate(stmts):
            if isinstance(s, ast.With) and is_binary_open(s):
                writes.append((s, trail + [(stmts, i)]))
            for fld in ('body', 'orelse', 'finalbody'):
                sub = getattr(s, fld, None)
                if isinstance(sub, list) and sub and isinstance(sub[0], ast.stmt):
                    visit(sub, trail + [(stmts, i)])
            if isinstance(s, ast.Try):
                for h in s.handlers:
                    visit(h.body, trail + [(stmts, i)])
    visit(fi.node.body, [])
    if len(writes) != 1:
        sites.append(dict(name='image-write/unique', verdict='violation' if len(writes) > 1 else 'undecided',
                          detail=f'{len(writes)} binary open-for-write statements in assemble_bytecode'))
        return sites
    w, trail = writes[0]
    sites.append(dict(name='image-write/unique', verdict='ok', detail=f'one binary write, line {w.lineno}'))
    # the with-body itself: only f.write(...)
    body_ok = all(isinstance(s, ast.Expr) and isinstance(s.value, ast.Call) and isinstance(s.value.func, ast.Attribute)
                  and s.value.func.attr == 'write' for s in w.body)
    sites.append(dict(name='image-write/body', verdict='ok' if body_ok else 'violation',
                      detail='the with-block only writes the buffer' if body_ok else 'the with-block does more than write'))
    # everything executed after the write
    bad = None
    for stmts, i in reversed(trail):
        for later in stmts[i + 1:]:
            why = may_abort(later)
            if why:
                bad = f'after the image is written (line {w.lineno}) the engine may still abort: {why}'
                break
        if bad:
            break
    sites.append(dict(name='image-write/last-fallible-step', verdict='violation' if bad else 'ok',
                      detail=bad or 'nothing that can abort runs after the image is written'))
    # the write must sit directly under `if self._generate_binary:` at the top level of the function
    guard_ok = len(trail) == 2 and isinstance(trail[0][0][trail[0][1]], ast.If) \
        and ast.unparse(trail[0][0][trail[0][1]].test) == 'self._generate_binary' and not trail[0][0][trail[0][1]].orelse
    sites.append(dict(name='image-write/guard', verdict='ok' if guard_ok else 'undecided',
                      detail='written iff binary generation was requested' if guard_ok else
                             'the write is not directly guarded by self._generate_binary at function level'))
    return sites
